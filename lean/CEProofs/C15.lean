import CEModel.GraphUtils
import Mathlib.Data.String.Basic
import Mathlib.Data.List.Nodup
import Mathlib.Data.List.Count

/-! # C15 — tabular export lists each edge exactly once with unchanged attributes

All statements are about `CE.Graph.exportFrame` (model of `network_to_dataframe`) and
`CE.Graph.exportPcmciRows` / `CE.Graph.exportPcmciCols` (model of `pcmci_network_to_dataframe`) of
`CEModel/GraphUtils.lean`, the executable model that the correspondence check compares with
`causationentropy/graph/utils.py`. The input of both is the edge list *as NetworkX iterates it*. -/
namespace CE.Graph.C15
open CE.Graph

/-! ## `network_to_dataframe` -/

/-- an optional number as a data-frame cell (`None` stays `None`) -/
def optRat : Option Rat → DCell
  | some q => DCell.rat q
  | none => DCell.none

/-- the five base cells of the row of edge `e`: endpoints unchanged, `lag` default `0`,
`cmi` / `p_value` default `None` -/
def baseCells (e : XEdge) : List DCell :=
  [DCell.node e.u, DCell.node e.v, DCell.int (e.lag.getD 0), optRat e.cmi, optRat e.p]

/-- the supplied metadata as (column, value) pairs in the order of `paramCols` -/
def present (paramCols : List (String × String)) (sup : List (String × DCell)) :
    List (String × DCell) :=
  paramCols.filterMap (fun pc => (sup.lookup pc.1).map (fun v => (pc.2, v)))

/-- closed form of `exportFrame` on a non-empty edge list (definitional unfolding) -/
theorem exportFrame_of_ne (pc : List (String × String)) (order : List String)
    (sup : List (String × DCell)) (es : List XEdge) (hne : es ≠ []) :
    exportFrame pc order sup es =
      { cols := baseCols ++ order.filter (fun c => ((present pc sup).lookup c).isSome),
        rows := es.map (fun e => baseCells e ++
          (order.filter (fun c => ((present pc sup).lookup c).isSome)).map
            (fun c => ((present pc sup).lookup c).getD DCell.none)) } := by
  unfold exportFrame
  have h : es.isEmpty = false := by cases es <;> simp_all
  simp only [h, Bool.false_eq_true, if_false, present]
  congr 1

/-- **C15 `empty`**: an edgeless graph gives the empty frame with exactly the five base columns,
whatever metadata is supplied. -/
theorem empty (pc : List (String × String)) (order : List String) (sup : List (String × DCell)) :
    exportFrame pc order sup [] = { cols := baseCols, rows := [] } := rfl

/-- **C15 `rows_eq_edges`**: one row per edge, in edge order; row `i` starts with edge `i`'s
`Source`, `Sink`, `Lag` (default 0), `CMI`, `P_Value` (default none) and is as wide as the header.
Holds for every `(parameter, column)` table, column order, supplied metadata and edge list
(parallel edges, self-loops and missing attributes included). -/
theorem rows_eq_edges (pc : List (String × String)) (order : List String)
    (sup : List (String × DCell)) (es : List XEdge) :
    (exportFrame pc order sup es).rows.length = es.length ∧
    ∀ (i : Nat) (h : i < es.length), ∃ tail : List DCell,
      (exportFrame pc order sup es).rows[i]? = some (baseCells es[i] ++ tail) ∧
      (baseCells es[i] ++ tail).length = (exportFrame pc order sup es).cols.length := by
  by_cases hne : es = []
  · subst hne
    exact ⟨rfl, fun i h => absurd h (Nat.not_lt_zero _)⟩
  · rw [exportFrame_of_ne pc order sup es hne]
    refine ⟨by simp, fun i h => ⟨(order.filter (fun c => ((present pc sup).lookup c).isSome)).map
            (fun c => ((present pc sup).lookup c).getD DCell.none), ?_, ?_⟩⟩
    · simp only [List.getElem?_map, List.getElem?_eq_getElem h, Option.map_some]
    · simp [baseCells, baseCols]

/-- the first five cells of row `i` are exactly the base cells of edge `i` (corollary) -/
theorem row_take5 (pc : List (String × String)) (order : List String)
    (sup : List (String × DCell)) (es : List XEdge) (i : Nat) (h : i < es.length) :
    ((exportFrame pc order sup es).rows[i]?).map (List.take 5) = some (baseCells es[i]) := by
  obtain ⟨tail, h1, -⟩ := (rows_eq_edges pc order sup es).2 i h
  rw [h1]
  simp [baseCells]

example :
    exportFrame stdMeta (stdMeta.map (·.2)) [("metric", DCell.str "euclidean")]
      [⟨⟨0, "a"⟩, ⟨1, "b"⟩, some 2, some 3, none⟩, ⟨⟨0, "a"⟩, ⟨1, "b"⟩, none, none, some 0⟩,
       ⟨⟨1, "b"⟩, ⟨1, "b"⟩, some 1, some 5, some 1⟩] =
      { cols := ["Source", "Sink", "Lag", "CMI", "P_Value", "Metric"],
        rows := [[.node ⟨0, "a"⟩, .node ⟨1, "b"⟩, .int 2, .rat 3, .none, .str "euclidean"],
                 [.node ⟨0, "a"⟩, .node ⟨1, "b"⟩, .int 0, .none, .rat 0, .str "euclidean"],
                 [.node ⟨1, "b"⟩, .node ⟨1, "b"⟩, .int 1, .rat 5, .rat 1, .str "euclidean"]] } := by
  decide

/-! ### header and metadata columns -/

theorem lookup_present_of_not_mem (f : String → Option DCell) (L : List (String × String))
    (c : String) (h : c ∉ L.map (·.2)) :
    (L.filterMap (fun pc => (f pc.1).map (fun v => (pc.2, v)))).lookup c = none := by
  induction L with
  | nil => rfl
  | cons x L ih =>
    simp only [List.map_cons, List.mem_cons, not_or] at h
    rw [List.filterMap_cons]
    cases hx : f x.1 with
    | none => simpa using ih h.2
    | some v =>
      have hc : (c == x.2) = false := by simpa using h.1
      simp only [Option.map_some, List.lookup_cons, hc]
      exact ih h.2

/-- with distinct column names, looking a column up among the supplied (column, value) pairs is
looking its parameter up among the supplied arguments -/
theorem lookup_present (f : String → Option DCell) (L : List (String × String))
    (hnd : (L.map (·.2)).Nodup) (a c : String) (h : (a, c) ∈ L) :
    (L.filterMap (fun pc => (f pc.1).map (fun v => (pc.2, v)))).lookup c = f a := by
  induction L with
  | nil => simp at h
  | cons x L ih =>
    rw [List.map_cons, List.nodup_cons] at hnd
    rw [List.filterMap_cons]
    rcases List.mem_cons.1 h with rfl | h'
    · cases hx : f a with
      | none => simpa [hx] using lookup_present_of_not_mem f L c hnd.1
      | some v => simp
    · have hne : (c == x.2) = false := by
        have : c ≠ x.2 := by
          rintro rfl
          exact hnd.1 (List.mem_map.2 ⟨(a, x.2), h', rfl⟩)
        simpa using this
      cases hx : f x.1 with
      | none => simpa [hx] using ih hnd.2 h'
      | some v =>
        simp only [Option.map_some, List.lookup_cons, hne]
        exact ih hnd.2 h'

theorem filterMap_eq_filter_map {α β γ : Type} (f : α → Option β) (h : α → β → γ) (d : β)
    (L : List α) :
    L.filterMap (fun q => (f q).map (h q)) =
      (L.filter (fun q => (f q).isSome)).map (fun q => h q ((f q).getD d)) := by
  induction L with
  | nil => rfl
  | cons q L ih => cases hq : f q <;> simp [hq, ih]

theorem zip_map_self {α β : Type} (l : List α) (g : α → β) :
    l.zip (l.map g) = l.map (fun c => (c, g c)) := by
  induction l with
  | nil => rfl
  | cons a l ih => simp [ih]

/-- header and metadata cells for an arbitrary `(parameter, column)` table with distinct column
names whose column order is the table order -/
theorem columns_gen (pc : List (String × String)) (hnd : (pc.map (·.2)).Nodup)
    (sup : List (String × DCell)) (es : List XEdge) (hne : es ≠ []) :
    (exportFrame pc (pc.map (·.2)) sup es).cols =
        baseCols ++ (pc.filter (fun q => (sup.lookup q.1).isSome)).map (·.2) ∧
    ∀ r ∈ (exportFrame pc (pc.map (·.2)) sup es).rows,
      r.length = (exportFrame pc (pc.map (·.2)) sup es).cols.length ∧
      ((exportFrame pc (pc.map (·.2)) sup es).cols.zip r).drop 5 =
        pc.filterMap (fun q => (sup.lookup q.1).map (fun v => (q.2, v))) := by
  rw [exportFrame_of_ne pc _ sup es hne]
  have key : ∀ q ∈ pc, (present pc sup).lookup q.2 = sup.lookup q.1 := fun q hq =>
    lookup_present (fun a => sup.lookup a) pc hnd q.1 q.2 hq
  have hcols : (pc.map (·.2)).filter (fun c => ((present pc sup).lookup c).isSome) =
      (pc.filter (fun q => (sup.lookup q.1).isSome)).map (·.2) := by
    rw [List.filter_map]
    congr 1
    apply List.filter_congr
    intro q hq
    simp only [Function.comp, key q hq]
  refine ⟨by rw [hcols], ?_⟩
  intro r hr
  simp only [List.mem_map] at hr
  obtain ⟨e, -, rfl⟩ := hr
  refine ⟨by simp [baseCells, baseCols], ?_⟩
  rw [hcols, List.zip_append (by simp [baseCells, baseCols])]
  have h5 : (baseCols.zip (baseCells e)).length = 5 := by simp [baseCells, baseCols]
  rw [List.drop_left' h5, zip_map_self, List.map_map,
    filterMap_eq_filter_map (fun q : String × String => sup.lookup q.1) (fun q v => (q.2, v))
      DCell.none]
  apply List.map_congr_left
  intro q hq
  simp only [Function.comp, key q (List.mem_of_mem_filter hq)]

/-- **C15 `columns`**: with the documented `(parameter, column)` table and column order, for
**every** list `sup` of supplied arguments (so in particular for each of the 2⁹ subsets of the nine
metadata parameters, with any values): the header is the five base columns followed by the columns
of the supplied parameters in documented order; and in every row the (column, cell) pairs after the
five base ones are exactly (column of the parameter, supplied value) — each metadata column is
constant with the supplied value. -/
theorem columns (sup : List (String × DCell)) (es : List XEdge) (hne : es ≠ []) :
    (exportFrame stdMeta (stdMeta.map (·.2)) sup es).cols =
        baseCols ++ (stdMeta.filter (fun q => (sup.lookup q.1).isSome)).map (·.2) ∧
    ∀ r ∈ (exportFrame stdMeta (stdMeta.map (·.2)) sup es).rows,
      r.length = (exportFrame stdMeta (stdMeta.map (·.2)) sup es).cols.length ∧
      ((exportFrame stdMeta (stdMeta.map (·.2)) sup es).cols.zip r).drop 5 =
        stdMeta.filterMap (fun q => (sup.lookup q.1).map (fun v => (q.2, v))) :=
  columns_gen stdMeta (by decide) sup es hne

/-- the header never repeats a column -/
theorem cols_nodup (sup : List (String × DCell)) (es : List XEdge) :
    (exportFrame stdMeta (stdMeta.map (·.2)) sup es).cols.Nodup := by
  by_cases hne : es = []
  · subst hne
    show baseCols.Nodup
    decide
  · rw [(columns sup es hne).1]
    have hsub : List.Sublist
        (baseCols ++ (stdMeta.filter (fun q => (sup.lookup q.1).isSome)).map (·.2))
        (baseCols ++ stdMeta.map (·.2)) :=
      List.Sublist.append_left (List.Sublist.map _ List.filter_sublist) _
    exact List.Nodup.sublist hsub (by decide)

/-- **C15 `columns`, cell form**: if parameter `param` (documented column `col`) is supplied with
value `v`, then in every row the cell under the (unique, by `cols_nodup`) column `col` is `v`;
if it is not supplied, the header has no column `col`. -/
theorem column_const (sup : List (String × DCell)) (es : List XEdge) (hne : es ≠ [])
    (param col : String) (hpc : (param, col) ∈ stdMeta) :
    (∀ v, sup.lookup param = some v →
      ∀ r ∈ (exportFrame stdMeta (stdMeta.map (·.2)) sup es).rows,
        (col, v) ∈ (exportFrame stdMeta (stdMeta.map (·.2)) sup es).cols.zip r) ∧
    (sup.lookup param = none → col ∉ (exportFrame stdMeta (stdMeta.map (·.2)) sup es).cols) := by
  obtain ⟨hc, hr⟩ := columns sup es hne
  constructor
  · intro v hv r hrm
    have h2 := (hr r hrm).2
    have hmem : (col, v) ∈ stdMeta.filterMap (fun q => (sup.lookup q.1).map (fun v => (q.2, v))) :=
      List.mem_filterMap.2 ⟨(param, col), hpc, by simp [hv]⟩
    rw [← h2] at hmem
    exact List.mem_of_mem_drop hmem
  · intro hnone hmem
    rw [hc, List.mem_append] at hmem
    rcases hmem with hb | hm
    · have : ∀ q ∈ stdMeta, q.2 ∉ baseCols := by decide
      exact this _ hpc hb
    · obtain ⟨q, hq, hqc⟩ := List.mem_map.1 hm
      have hq' := List.mem_filter.1 hq
      have : ∀ q ∈ stdMeta, ∀ q' ∈ stdMeta, q.2 = q'.2 → q.1 = q'.1 := by decide
      have h1 : q.1 = param := this q hq'.1 (param, col) hpc hqc
      rw [h1, hnone] at hq'
      simp at hq'

example :
    (exportFrame stdMeta (stdMeta.map (·.2))
      [("max_lag", DCell.int 3), ("method", DCell.str "standard"), ("alpha_forward", DCell.rat 0)]
      [⟨⟨0, "a"⟩, ⟨1, "b"⟩, some 2, some 3, none⟩]) =
      { cols := ["Source", "Sink", "Lag", "CMI", "P_Value", "Method", "Alpha_Forward", "Max_Lag"],
        rows := [[.node ⟨0, "a"⟩, .node ⟨1, "b"⟩, .int 2, .rat 3, .none,
                  .str "standard", .rat 0, .int 3]] } := by
  decide

/-! ## `pcmci_network_to_dataframe` -/

def yty (e : YEdge) : String := e.type.getD "directed"
def ylag (e : YEdge) : Int := e.lag.getD 0
/-- `link_type in {"undirected", "conflicting"}` -/
def symTy (ty : String) : Prop := ty = "undirected" ∨ ty = "conflicting"
instance : DecidablePred symTy := fun ty => by unfold symTy; infer_instance
/-- `Val` cell: the `val` attribute, else the `cmi` attribute, else none -/
def yval (e : YEdge) : Option Rat :=
  match e.val with
  | some q => some q
  | none => e.cmi

/-- endpoints as listed: `sorted((u, v), key=str)` for a symmetric link, `(u, v)` otherwise -/
def canon (e : YEdge) : Node × Node :=
  if symTy (yty e) then (if e.v.str < e.u.str then (e.v, e.u) else (e.u, e.v)) else (e.u, e.v)

/-- the row that edge `e` yields when it is listed -/
def rowOf (e : YEdge) : YRow :=
  { src := (canon e).1, snk := (canon e).2, lag := ylag e, val := yval e, p := e.p,
    type := yty e, sig := e.sig }

/-- de-duplication key of a row / of an edge -/
def rkey (r : YRow) : Nat × Nat × Int × String := (r.src.id, r.snk.id, r.lag, r.type)
def ykey (e : YEdge) : Nat × Nat × Int × String := rkey (rowOf e)

/-- the fold of `exportPcmciRows` as a structural recursion over the edge list -/
def rowsFrom (seen : List (Nat × Nat × Int × String)) : List YEdge → List YRow
  | [] => []
  | e :: es =>
    if symTy (yty e) then
      (if seen.contains (ykey e) then rowsFrom seen es else rowOf e :: rowsFrom (ykey e :: seen) es)
    else rowOf e :: rowsFrom seen es

/-- one iteration of the fold in `exportPcmciRows` (verbatim) -/
def step (acc : List YRow × List (Nat × Nat × Int × String)) (e : YEdge) :
    List YRow × List (Nat × Nat × Int × String) :=
  let ty := e.type.getD "directed"
  let lag := e.lag.getD 0
  let mk (s t : Node) : YRow :=
    { src := s, snk := t, lag := lag, val := (match e.val with | some q => some q | none => e.cmi),
      p := e.p, type := ty, sig := e.sig }
  if ty = "undirected" ∨ ty = "conflicting" then
    let (s, t) := if e.v.str < e.u.str then (e.v, e.u) else (e.u, e.v)
    let key := (s.id, t.id, lag, ty)
    if acc.2.contains key then acc else (acc.1 ++ [mk s t], key :: acc.2)
  else (acc.1 ++ [mk e.u e.v], acc.2)

theorem exportPcmciRows_fold (es : List YEdge) :
    exportPcmciRows es = (es.foldl step ([], [])).1 := rfl

theorem step_eq (acc : List YRow) (seen : List (Nat × Nat × Int × String)) (e : YEdge) :
    step (acc, seen) e =
      if symTy (yty e) then
        (if seen.contains (ykey e) then (acc, seen) else (acc ++ [rowOf e], ykey e :: seen))
      else (acc ++ [rowOf e], seen) := by
  by_cases hs : e.type.getD "directed" = "undirected" ∨ e.type.getD "directed" = "conflicting"
  · by_cases hlt : e.v.str < e.u.str
    · simp [step, symTy, yty, ykey, rkey, rowOf, canon, ylag, yval, hs, hlt]
    · simp [step, symTy, yty, ykey, rkey, rowOf, canon, ylag, yval, hs, hlt]
  · simp [step, symTy, yty, rowOf, canon, ylag, yval, hs]

theorem foldl_eq_rowsFrom (es : List YEdge) (acc : List YRow)
    (seen : List (Nat × Nat × Int × String)) :
    (es.foldl step (acc, seen)).1 = acc ++ rowsFrom seen es := by
  induction es generalizing acc seen with
  | nil => simp [rowsFrom]
  | cons e es ih =>
    rw [List.foldl_cons, rowsFrom, step_eq]
    by_cases hs : symTy (yty e)
    · by_cases hc : seen.contains (ykey e) = true
      · simp only [hs, hc, if_true]
        exact ih acc seen
      · simp only [hs, hc, if_true]
        rw [ih]
        simp
    · simp only [hs, if_false]
      rw [ih]
      simp

/-- `exportPcmciRows` is the structural recursion `rowsFrom` started with nothing seen -/
theorem exportPcmciRows_eq (es : List YEdge) : exportPcmciRows es = rowsFrom [] es := by
  rw [exportPcmciRows_fold, foldl_eq_rowsFrom]
  rfl


/-- every row is the row of an edge, rows keep the edge order, and no edge yields two rows -/
theorem rowsFrom_sublist (seen : List (Nat × Nat × Int × String)) (es : List YEdge) :
    List.Sublist (rowsFrom seen es) (es.map rowOf) := by
  induction es generalizing seen with
  | nil => simp [rowsFrom]
  | cons e es ih =>
    rw [rowsFrom, List.map_cons]
    split
    · split
      · exact List.Sublist.cons _ (ih _)
      · exact List.Sublist.cons_cons _ (ih _)
    · exact List.Sublist.cons_cons _ (ih _)

/-- **C15 (PCMCI export) `rows_sublist`**: the rows are a subsequence of `es.map rowOf`: every row
is the row of an edge, in edge order, and no edge is listed twice. -/
theorem rows_sublist (es : List YEdge) : List.Sublist (exportPcmciRows es) (es.map rowOf) := by
  rw [exportPcmciRows_eq]
  exact rowsFrom_sublist [] es

theorem row_of_edge (es : List YEdge) (r : YRow) (hr : r ∈ exportPcmciRows es) :
    ∃ e ∈ es, r = rowOf e := by
  obtain ⟨e, he, rfl⟩ := List.mem_map.1 ((rows_sublist es).subset hr)
  exact ⟨e, he, rfl⟩

/-- the row of an edge whose link type is not undirected/conflicting: endpoints unchanged, `lag`
default 0, `Val` = `val` attribute else `cmi` attribute, `P_Value`, `Link_Type` (default
"directed"), `Significant` -/
def plainRow (e : YEdge) : YRow :=
  { src := e.u, snk := e.v, lag := e.lag.getD 0, val := yval e, p := e.p,
    type := e.type.getD "directed", sig := e.sig }

theorem rowOf_of_not_sym (e : YEdge) (h : ¬ symTy (yty e)) : rowOf e = plainRow e := by
  have h' : ¬ symTy (e.type.getD "directed") := h
  simp [rowOf, canon, h', plainRow, ylag, yty]

theorem rowsFrom_filter_directed (seen : List (Nat × Nat × Int × String)) (es : List YEdge) :
    (rowsFrom seen es).filter (fun r => decide (¬ symTy r.type)) =
      (es.filter (fun e => decide (¬ symTy (yty e)))).map plainRow := by
  induction es generalizing seen with
  | nil => simp [rowsFrom]
  | cons e es ih =>
    have hty : (rowOf e).type = yty e := rfl
    rw [rowsFrom]
    by_cases hs : symTy (yty e)
    · have hd : decide (¬ symTy (yty e)) = false := by simpa using hs
      by_cases hc : seen.contains (ykey e) = true
      · rw [if_pos hs, if_pos hc, ih seen]
        simp only [List.filter_cons, hd, Bool.false_eq_true, if_false]
      · rw [if_pos hs, if_neg hc]
        simp only [List.filter_cons, hty, hd, Bool.false_eq_true, if_false]
        exact ih _
    · have hd : decide (¬ symTy (yty e)) = true := by simpa using hs
      have hty' : (plainRow e).type = yty e := rfl
      rw [if_neg hs]
      simp only [List.filter_cons, hty', hd, if_true, List.map_cons, rowOf_of_not_sym e hs, ih seen]

/-- **C15 (PCMCI export) `rows_directed`**: the rows whose link type is not undirected/conflicting
are exactly the rows of the edges of such type — one row each, in edge order, endpoints unchanged,
`Val` from `val` else `cmi`, `P_Value`, `Link_Type`, `Significant` unchanged. -/
theorem rows_directed (es : List YEdge) :
    (exportPcmciRows es).filter (fun r => decide (¬ symTy r.type)) =
      (es.filter (fun e => decide (¬ symTy (yty e)))).map plainRow := by
  rw [exportPcmciRows_eq]
  exact rowsFrom_filter_directed [] es

theorem rowsFrom_sym_nodup (seen : List (Nat × Nat × Int × String)) (es : List YEdge) :
    (((rowsFrom seen es).map rkey).filter (fun k => decide (symTy k.2.2.2))).Nodup ∧
    ∀ k ∈ (rowsFrom seen es).map rkey, symTy k.2.2.2 → k ∉ seen := by
  induction es generalizing seen with
  | nil => simp [rowsFrom]
  | cons e es ih =>
    have hty : (ykey e).2.2.2 = yty e := rfl
    have hk : rkey (rowOf e) = ykey e := rfl
    rw [rowsFrom]
    by_cases hs : symTy (yty e)
    · rw [if_pos hs]
      by_cases hc : seen.contains (ykey e) = true
      · rw [if_pos hc]
        exact ih seen
      · rw [if_neg hc, List.map_cons, hk]
        obtain ⟨ih1, ih2⟩ := ih (ykey e :: seen)
        have hd : decide (symTy (ykey e).2.2.2) = true := by rw [hty]; simpa using hs
        constructor
        · rw [List.filter_cons, hd, if_pos rfl]
          refine List.nodup_cons.2 ⟨fun hmem => ?_, ih1⟩
          have hm := List.mem_filter.1 hmem
          exact ih2 _ hm.1 (by rw [hty]; exact hs) (List.mem_cons_self ..)
        · intro k hk' hsk
          rcases List.mem_cons.1 hk' with rfl | hk'
          · simpa using hc
          · exact fun hmem => ih2 k hk' hsk (List.mem_cons_of_mem _ hmem)
    · rw [if_neg hs, List.map_cons, hk]
      obtain ⟨ih1, ih2⟩ := ih seen
      have hd : decide (symTy (ykey e).2.2.2) = false := by rw [hty]; simpa using hs
      constructor
      · rw [List.filter_cons, hd, if_neg (by simp)]
        exact ih1
      · intro k hk' hsk
        rcases List.mem_cons.1 hk' with rfl | hk'
        · rw [hty] at hsk; exact absurd hsk hs
        · exact ih2 k hk' hsk

theorem rowsFrom_sym_mem (seen : List (Nat × Nat × Int × String)) (es : List YEdge) (e : YEdge)
    (he : e ∈ es) (hs : symTy (yty e)) :
    ykey e ∈ seen ∨ ykey e ∈ (rowsFrom seen es).map rkey := by
  induction es generalizing seen with
  | nil => simp at he
  | cons a es ih =>
    rw [rowsFrom]
    rcases List.mem_cons.1 he with rfl | he'
    · by_cases hc : seen.contains (ykey e) = true
      · exact Or.inl (by simpa using hc)
      · rw [if_pos hs, if_neg hc, List.map_cons]
        exact Or.inr (List.mem_cons_self ..)
    · by_cases hsa : symTy (yty a)
      · rw [if_pos hsa]
        by_cases hc : seen.contains (ykey a) = true
        · rw [if_pos hc]
          exact ih seen he'
        · rw [if_neg hc, List.map_cons]
          rcases ih (ykey a :: seen) he' with h | h
          · rcases List.mem_cons.1 h with h | h
            · exact Or.inr (by rw [h]; exact List.mem_cons_self ..)
            · exact Or.inl h
          · exact Or.inr (List.mem_cons_of_mem _ h)
      · rw [if_neg hsa, List.map_cons]
        rcases ih seen he' with h | h
        · exact Or.inl h
        · exact Or.inr (List.mem_cons_of_mem _ h)

/-- **C15 (PCMCI export) `sym_nodup`**: among the rows of symmetric (undirected / conflicting) type
no de-duplication key `(Source, Sink, Lag, Link_Type)` occurs twice, every symmetric edge is
represented by a row with its canonical key, and the endpoints of every symmetric row are ordered
by `str`. -/
theorem sym_nodup (es : List YEdge) :
    (((exportPcmciRows es).map rkey).filter (fun k => decide (symTy k.2.2.2))).Nodup ∧
    (∀ e ∈ es, symTy (yty e) → ykey e ∈ (exportPcmciRows es).map rkey) ∧
    (∀ r ∈ exportPcmciRows es, symTy r.type → ¬ r.snk.str < r.src.str) := by
  refine ⟨?_, ?_, ?_⟩
  · rw [exportPcmciRows_eq]
    exact (rowsFrom_sym_nodup [] es).1
  · intro e he hs
    rw [exportPcmciRows_eq]
    rcases rowsFrom_sym_mem [] es e he hs with h | h
    · simp at h
    · exact h
  · intro r hr hs
    obtain ⟨e, -, rfl⟩ := row_of_edge es r hr
    have hs' : symTy (yty e) := hs
    by_cases hlt : e.v.str < e.u.str
    · simpa [rowOf, canon, hs', hlt] using lt_asymm hlt
    · simp [rowOf, canon, hs', hlt]

/-- the two orientations of a symmetric link between nodes with distinct `str` labels have the
same canonical endpoints -/
theorem canon_mirror (e1 e2 : YEdge) (hs : symTy (yty e1)) (hu : e2.u = e1.v) (hv : e2.v = e1.u)
    (ht : yty e2 = yty e1) (hstr : e1.u.str ≠ e1.v.str) : canon e2 = canon e1 := by
  have hs2 : symTy (yty e2) := by rw [ht]; exact hs
  by_cases hlt : e1.v.str < e1.u.str
  · have : ¬ e1.u.str < e1.v.str := lt_asymm hlt
    simp [canon, hs, hs2, hu, hv, hlt, this]
  · have : e1.u.str < e1.v.str := lt_of_le_of_ne (not_lt.1 hlt) hstr
    simp [canon, hs, hs2, hu, hv, hlt, this]

/-- **C15 (PCMCI export) `sym_once`**: a mirrored symmetric pair `(u, v)`, `(v, u)` with the same
lag and (undirected / conflicting) type between nodes with distinct `str` labels has one common
de-duplication key, and **exactly one** row of the export carries it; that row is the row of an
edge with this key and its endpoints are strictly ordered by `str`. -/
theorem sym_once (es : List YEdge) (e1 e2 : YEdge) (h1 : e1 ∈ es) (_h2 : e2 ∈ es)
    (hs : symTy (yty e1)) (hu : e2.u = e1.v) (hv : e2.v = e1.u) (hl : ylag e2 = ylag e1)
    (ht : yty e2 = yty e1) (hstr : e1.u.str ≠ e1.v.str) :
    ykey e2 = ykey e1 ∧
    ((exportPcmciRows es).map rkey).count (ykey e1) = 1 ∧
    ∀ r ∈ exportPcmciRows es, rkey r = ykey e1 →
      (∃ e ∈ es, r = rowOf e ∧ ykey e = ykey e1) ∧ ¬ r.snk.str < r.src.str := by
  obtain ⟨hnd, hmem, hsorted⟩ := sym_nodup es
  refine ⟨?_, ?_, ?_⟩
  · simp only [ykey, rkey, rowOf, canon_mirror e1 e2 hs hu hv ht hstr, hl, ht]
  · have hp : (fun k : Nat × Nat × Int × String => decide (symTy k.2.2.2)) (ykey e1) = true := by
      simpa using (show symTy (ykey e1).2.2.2 from hs)
    rw [← List.count_filter (p := fun k : Nat × Nat × Int × String => decide (symTy k.2.2.2)) hp]
    exact List.count_eq_one_of_mem hnd (List.mem_filter.2 ⟨hmem e1 h1 hs, hp⟩)
  · intro r hr hk
    obtain ⟨e, he, rfl⟩ := row_of_edge es r hr
    refine ⟨⟨e, he, rfl, hk⟩, hsorted _ hr ?_⟩
    have : (rowOf e).type = (ykey e1).2.2.2 := by rw [← hk]; rfl
    rw [this]
    exact hs

example :
    exportPcmciRows
      [⟨⟨0, "b"⟩, ⟨1, "a"⟩, some 1, some "undirected", some 3, none, some 0, none⟩,
       ⟨⟨0, "b"⟩, ⟨2, "c"⟩, none, none, none, some 7, none, some true⟩,
       ⟨⟨1, "a"⟩, ⟨0, "b"⟩, some 1, some "undirected", some 3, none, some 0, none⟩,
       ⟨⟨1, "a"⟩, ⟨0, "b"⟩, some 2, some "undirected", some 4, none, some 1, none⟩,
       ⟨⟨0, "b"⟩, ⟨2, "c"⟩, some 0, some "possible_directed", some 5, some 7, some 1, none⟩] =
      [⟨⟨1, "a"⟩, ⟨0, "b"⟩, 1, some 3, some 0, "undirected", none⟩,
       ⟨⟨0, "b"⟩, ⟨2, "c"⟩, 0, some 7, none, "directed", some true⟩,
       ⟨⟨1, "a"⟩, ⟨0, "b"⟩, 2, some 4, some 1, "undirected", none⟩,
       ⟨⟨0, "b"⟩, ⟨2, "c"⟩, 0, some 5, some 1, "possible_directed", none⟩] := by
  decide

def exE1 : YEdge := ⟨⟨0, "b"⟩, ⟨1, "a"⟩, some 1, some "undirected", some 3, none, some 0, none⟩
def exE2 : YEdge := ⟨⟨1, "a"⟩, ⟨0, "b"⟩, some 1, some "undirected", some 3, none, some 0, none⟩

/-- the hypotheses of `sym_once` are satisfiable (mirrored undirected pair "b"–"a" at lag 1) -/
example : ((exportPcmciRows [exE1, exE2]).map rkey).count (ykey exE1) = 1 :=
  (sym_once [exE1, exE2] exE1 exE2 (List.mem_cons_self ..)
    (List.mem_cons_of_mem _ (List.mem_cons_self ..))
    (by decide) rfl rfl rfl rfl (by decide)).2.1

/-- **C15 (PCMCI export) `cols_pcmci`**: header rule. No edge: no row, and the header is the six
base columns plus `Significant`. At least one edge: at least one row, and `Significant` is present
exactly when some listed row carries a `significant` attribute. -/
theorem cols_pcmci (es : List YEdge) :
    (es = [] → exportPcmciRows es = [] ∧
      exportPcmciCols (exportPcmciRows es) = pcmciBaseCols ++ ["Significant"]) ∧
    (es ≠ [] → exportPcmciRows es ≠ [] ∧
      ((∃ r ∈ exportPcmciRows es, r.sig.isSome) →
        exportPcmciCols (exportPcmciRows es) = pcmciBaseCols ++ ["Significant"]) ∧
      ((∀ r ∈ exportPcmciRows es, r.sig = none) →
        exportPcmciCols (exportPcmciRows es) = pcmciBaseCols)) := by
  constructor
  · rintro rfl
    exact ⟨rfl, rfl⟩
  · intro hne
    have hrows : exportPcmciRows es ≠ [] := by
      rw [exportPcmciRows_eq]
      cases es with
      | nil => exact absurd rfl hne
      | cons e es =>
        rw [rowsFrom]
        split
        · simp
        · simp
    have hemp : (exportPcmciRows es).isEmpty = false := by
      cases h : exportPcmciRows es with
      | nil => exact absurd h hrows
      | cons _ _ => rfl
    refine ⟨hrows, ?_, ?_⟩
    · rintro ⟨r, hr, hsig⟩
      have : (exportPcmciRows es).any (fun r => r.sig.isSome) = true :=
        List.any_eq_true.2 ⟨r, hr, hsig⟩
      simp [exportPcmciCols, hemp, this]
    · intro hall
      have : (exportPcmciRows es).any (fun r => r.sig.isSome) = false := by
        rw [List.any_eq_false]
        intro r hr
        simp [hall r hr]
      simp [exportPcmciCols, hemp, this]

example : exportPcmciCols (exportPcmciRows
    [⟨⟨0, "b"⟩, ⟨1, "a"⟩, some 1, none, some 3, none, some 0, none⟩]) =
    ["Source", "Sink", "Lag", "Val", "P_Value", "Link_Type"] := by decide
example : exportPcmciCols (exportPcmciRows
    [⟨⟨0, "b"⟩, ⟨1, "a"⟩, some 1, none, some 3, none, some 0, some false⟩]) =
    ["Source", "Sink", "Lag", "Val", "P_Value", "Link_Type", "Significant"] := by decide
example : exportPcmciCols (exportPcmciRows []) =
    ["Source", "Sink", "Lag", "Val", "P_Value", "Link_Type", "Significant"] := by decide

end CE.Graph.C15
