import CEModel.Stats
import Mathlib.Algebra.Order.Field.Basic
import Mathlib.Algebra.BigOperators.Group.List.Basic
import Mathlib.Data.Rat.Defs
import Mathlib.Data.List.Perm.Basic
import Mathlib.Tactic.Linarith
import Mathlib.Tactic.Positivity
import Mathlib.Tactic.Ring
import Mathlib.Tactic.FieldSimp
import Mathlib.Tactic.NormNum

/-! # C17 — TPR/FPR and AUC equal their confusion-matrix and trapezoid definitions

All statements are about `CE.Stats.tprFpr` / `CE.Stats.auc`, the executable model that the
correspondence check compares with `Compute_TPR_FPR` / `auc` of `core/stats.py`. -/
namespace CE.Stats

/-- every entry of both matrices is 0 or 1 -/
def Binary (ps : List (ℚ × ℚ)) : Prop := ∀ p ∈ ps, (p.1 = 0 ∨ p.1 = 1) ∧ (p.2 = 0 ∨ p.2 = 1)

def TP (ps : List (ℚ × ℚ)) : ℕ := ps.countP (fun p => decide (p.1 = 1 ∧ p.2 = 1))
def FN (ps : List (ℚ × ℚ)) : ℕ := ps.countP (fun p => decide (p.1 = 1 ∧ p.2 = 0))
def FP (ps : List (ℚ × ℚ)) : ℕ := ps.countP (fun p => decide (p.1 = 0 ∧ p.2 = 1))
def TN (ps : List (ℚ × ℚ)) : ℕ := ps.countP (fun p => decide (p.1 = 0 ∧ p.2 = 0))

theorem Binary.tail {p : ℚ × ℚ} {ps : List (ℚ × ℚ)} (h : Binary (p :: ps)) : Binary ps :=
  fun q hq => h q (List.mem_cons_of_mem _ hq)

theorem falseNeg_eq (ps : List (ℚ × ℚ)) (h : Binary ps) : falseNeg ps = FN ps := by
  induction ps with
  | nil => rfl
  | cons p ps ih =>
    have hp := h p (List.mem_cons_self ..)
    have := ih h.tail
    unfold falseNeg FN at *
    rw [List.countP_cons, List.countP_cons, this]
    congr 1
    rcases hp with ⟨h1 | h1, h2 | h2⟩ <;> simp [h1, h2]

theorem falsePos_eq (ps : List (ℚ × ℚ)) (h : Binary ps) : falsePos ps = FP ps := by
  induction ps with
  | nil => rfl
  | cons p ps ih =>
    have hp := h p (List.mem_cons_self ..)
    have := ih h.tail
    unfold falsePos FP at *
    rw [List.countP_cons, List.countP_cons, this]
    congr 1
    rcases hp with ⟨h1 | h1, h2 | h2⟩ <;> simp [h1, h2]

theorem totalPos_eq (ps : List (ℚ × ℚ)) (h : Binary ps) : totalPos ps = (TP ps : ℚ) + FN ps := by
  induction ps with
  | nil => simp [totalPos, TP, FN]
  | cons p ps ih =>
    have hp := h p (List.mem_cons_self ..)
    have := ih h.tail
    unfold totalPos TP FN at *
    rw [List.map_cons, List.sum_cons, this, List.countP_cons, List.countP_cons]
    rcases hp with ⟨h1 | h1, h2 | h2⟩ <;> simp [h1, h2] <;> ring

theorem length_eq (ps : List (ℚ × ℚ)) (h : Binary ps) :
    ps.length = TP ps + FN ps + FP ps + TN ps := by
  induction ps with
  | nil => rfl
  | cons p ps ih =>
    have hp := h p (List.mem_cons_self ..)
    have := ih h.tail
    unfold TP FN FP TN at *
    rw [List.length_cons, List.countP_cons, List.countP_cons, List.countP_cons, List.countP_cons, this]
    rcases hp with ⟨h1 | h1, h2 | h2⟩ <;> simp [h1, h2] <;> omega

/-- **TPR = TP / (TP + FN)** whenever the truth has an edge. -/
theorem tpr_def (n : ℕ) (ps : List (ℚ × ℚ)) (h : Binary ps) (hpos : 0 < TP ps + FN ps) :
    (tprFpr n ps).1 = (TP ps : ℚ) / ((TP ps : ℚ) + FN ps) := by
  have hP := totalPos_eq ps h
  have hq : (0 : ℚ) < (TP ps : ℚ) + FN ps := by exact_mod_cast hpos
  simp only [tprFpr, hP, falseNeg_eq ps h, if_pos hq]
  field_simp
  ring

/-- TPR is 1 when the truth has no edges. -/
theorem tpr_no_edges (n : ℕ) (ps : List (ℚ × ℚ)) (h : Binary ps) (hz : TP ps + FN ps = 0) :
    (tprFpr n ps).1 = 1 := by
  have hP := totalPos_eq ps h
  have hq : ¬ (0 : ℚ) < (TP ps : ℚ) + FN ps := by
    have : ((TP ps + FN ps : ℕ) : ℚ) = 0 := by exact_mod_cast hz
    push_cast at this; linarith
  simp only [tprFpr, hP, if_neg hq]

/-- The flattened matrices are (a rearrangement of) `n(n-1)` off-diagonal pairs followed by
diagonal pairs that are all `(0,0)`. -/
structure ZeroDiag (n : ℕ) (ps off diag : List (ℚ × ℚ)) : Prop where
  perm : ps.Perm (off ++ diag)
  offLen : off.length = n * (n - 1)
  diagZero : ∀ p ∈ diag, p = (0, 0)

theorem countP_diag_zero (q : ℚ × ℚ → Bool) (hq : q (0, 0) = false) (diag : List (ℚ × ℚ))
    (hd : ∀ p ∈ diag, p = (0, 0)) : diag.countP q = 0 := by
  rw [List.countP_eq_zero]
  intro p hp; rw [hd p hp, hq]; simp

theorem sum_fst_diag_zero (diag : List (ℚ × ℚ)) (hd : ∀ p ∈ diag, p = (0, 0)) :
    (diag.map (·.1)).sum = 0 := by
  induction diag with
  | nil => rfl
  | cons p ps ih =>
    rw [List.map_cons, List.sum_cons, ih (fun q hq => hd q (List.mem_cons_of_mem _ hq)),
      hd p (List.mem_cons_self ..)]
    simp

theorem n_mul_pred_cast (n : ℕ) : ((n * (n - 1) : ℕ) : ℚ) = (n : ℚ) * ((n : ℚ) - 1) := by
  rcases n with _ | n
  · simp
  · push_cast; simp

/-- **FPR = FP / (FP + TN)** over the off-diagonal pairs, when there is a non-edge. -/
theorem fpr_def (n : ℕ) (ps off diag : List (ℚ × ℚ)) (hz : ZeroDiag n ps off diag)
    (h : Binary off) (hneg : 0 < FP off + TN off) :
    (tprFpr n ps).2 = (FP off : ℚ) / ((FP off : ℚ) + TN off) := by
  have hfp : falsePos ps = FP off := by
    unfold falsePos
    rw [hz.perm.countP_eq, List.countP_append,
      countP_diag_zero _ (by simp) diag hz.diagZero, Nat.add_zero]
    exact falsePos_eq off h
  have hP : totalPos ps = (TP off : ℚ) + FN off := by
    unfold totalPos
    rw [(hz.perm.map _).sum_eq, List.map_append, List.sum_append, sum_fst_diag_zero diag hz.diagZero,
      add_zero]
    exact totalPos_eq off h
  have hlen := length_eq off h
  rw [hz.offLen] at hlen
  have hN : (n : ℚ) * ((n : ℚ) - 1) - totalPos ps = (FP off : ℚ) + TN off := by
    rw [hP, ← n_mul_pred_cast, hlen]; push_cast; ring
  have hq : (0 : ℚ) < (FP off : ℚ) + TN off := by exact_mod_cast hneg
  simp only [tprFpr, hN, hfp, if_pos hq]

/-- FPR is 0 when there are no negatives. -/
theorem fpr_no_negatives (n : ℕ) (ps off diag : List (ℚ × ℚ)) (hz : ZeroDiag n ps off diag)
    (h : Binary off) (hneg : FP off + TN off = 0) : (tprFpr n ps).2 = 0 := by
  have hP : totalPos ps = (TP off : ℚ) + FN off := by
    unfold totalPos
    rw [(hz.perm.map _).sum_eq, List.map_append, List.sum_append, sum_fst_diag_zero diag hz.diagZero,
      add_zero]
    exact totalPos_eq off h
  have hlen := length_eq off h
  rw [hz.offLen] at hlen
  have hN : (n : ℚ) * ((n : ℚ) - 1) - totalPos ps = (FP off : ℚ) + TN off := by
    rw [hP, ← n_mul_pred_cast, hlen]; push_cast; ring
  have hq : ¬ (0 : ℚ) < (FP off : ℚ) + TN off := by
    have : ((FP off + TN off : ℕ) : ℚ) = 0 := by exact_mod_cast hneg
    push_cast at this; linarith
  simp only [tprFpr, hN, if_neg hq]

/-- Both rates lie in [0, 1]. -/
theorem rates_in_unit (n : ℕ) (ps off diag : List (ℚ × ℚ)) (hz : ZeroDiag n ps off diag)
    (hb : Binary ps) (h : Binary off) :
    0 ≤ (tprFpr n ps).1 ∧ (tprFpr n ps).1 ≤ 1 ∧ 0 ≤ (tprFpr n ps).2 ∧ (tprFpr n ps).2 ≤ 1 := by
  refine ⟨?_, ?_, ?_, ?_⟩
  · rcases Nat.eq_zero_or_pos (TP ps + FN ps) with h0 | h0
    · rw [tpr_no_edges n ps hb h0]; norm_num
    · rw [tpr_def n ps hb h0]; positivity
  · rcases Nat.eq_zero_or_pos (TP ps + FN ps) with h0 | h0
    · rw [tpr_no_edges n ps hb h0]
    · rw [tpr_def n ps hb h0]
      have hq : (0 : ℚ) < (TP ps : ℚ) + FN ps := by exact_mod_cast h0
      rw [div_le_one hq]; linarith [(Nat.cast_nonneg (FN ps) : (0 : ℚ) ≤ _)]
  · rcases Nat.eq_zero_or_pos (FP off + TN off) with h0 | h0
    · rw [fpr_no_negatives n ps off diag hz h h0]
    · rw [fpr_def n ps off diag hz h h0]; positivity
  · rcases Nat.eq_zero_or_pos (FP off + TN off) with h0 | h0
    · rw [fpr_no_negatives n ps off diag hz h h0]; norm_num
    · rw [fpr_def n ps off diag hz h h0]
      have hq : (0 : ℚ) < (FP off : ℚ) + TN off := by exact_mod_cast h0
      rw [div_le_one hq]; linarith [(Nat.cast_nonneg (TN off) : (0 : ℚ) ≤ _)]

theorem countP_eq_zero_of_forall {α} (q : α → Bool) (l : List α) (h : ∀ p ∈ l, q p = false) :
    l.countP q = 0 := by
  rw [List.countP_eq_zero]; intro p hp; simp [h p hp]

/-- Identical matrices give (1, 0). -/
theorem identical (n : ℕ) (ps : List (ℚ × ℚ)) (hid : ∀ p ∈ ps, p.1 = p.2) :
    tprFpr n ps = (1, 0) := by
  have h1 : falseNeg ps = 0 := countP_eq_zero_of_forall _ _ (fun p hp => by simp [hid p hp])
  have h2 : falsePos ps = 0 := countP_eq_zero_of_forall _ _ (fun p hp => by simp [hid p hp])
  simp only [tprFpr, h1, h2]
  simp

/-- Predicting the off-diagonal complement of a truth with both edges and non-edges gives (0, 1). -/
theorem complement (n : ℕ) (ps off diag : List (ℚ × ℚ)) (hz : ZeroDiag n ps off diag)
    (hb : Binary ps) (h : Binary off) (hc : ∀ p ∈ off, p.2 = 1 - p.1)
    (hedge : ∃ p ∈ off, p.1 = 1) (hnon : ∃ p ∈ off, p.1 = 0) :
    tprFpr n ps = (0, 1) := by
  have hTPoff : TP off = 0 := countP_eq_zero_of_forall _ _ (fun p hp => by
    have := hc p hp
    by_cases h1 : p.1 = 1
    · simp [h1, this]
    · simp [h1])
  have hTNoff : TN off = 0 := countP_eq_zero_of_forall _ _ (fun p hp => by
    have := hc p hp
    by_cases h1 : p.1 = 0
    · simp [h1, this]
    · simp [h1])
  have hTP : TP ps = 0 := by
    unfold TP at *
    rw [hz.perm.countP_eq, List.countP_append, hTPoff,
      countP_diag_zero _ (by simp) diag hz.diagZero]
  have hFNpos : 0 < FN ps := by
    unfold FN
    rw [hz.perm.countP_eq, List.countP_append]
    obtain ⟨p, hp, h1⟩ := hedge
    have : 0 < off.countP (fun p => decide (p.1 = 1 ∧ p.2 = 0)) := by
      rw [List.countP_pos_iff]
      exact ⟨p, hp, by simp [h1, hc p hp]⟩
    omega
  have hFPpos : 0 < FP off := by
    unfold FP
    obtain ⟨p, hp, h0⟩ := hnon
    rw [List.countP_pos_iff]
    exact ⟨p, hp, by simp [h0, hc p hp]⟩
  ext
  · rw [tpr_def n ps hb (by omega), hTP]; simp
  · rw [fpr_def n ps off diag hz h (by omega), hTNoff]
    have : (FP off : ℚ) ≠ 0 := by exact_mod_cast hFPpos.ne'
    simp [this]

/-! ### AUC -/

/-- `auc` is the trapezoid sum (unfolding lemma = the definition). -/
theorem auc_trapezoid (y₀ y₁ x₀ x₁ : ℚ) (ys xs : List ℚ) :
    auc (y₀ :: y₁ :: ys) (x₀ :: x₁ :: xs) = (x₁ - x₀) * (y₀ + y₁) / 2 + auc (y₁ :: ys) (x₁ :: xs) := rfl

/-- For x non-decreasing and all y in [0,1]: 0 ≤ auc ≤ last x − first x. -/
theorem auc_between : ∀ (ys xs : List ℚ), ys.length = xs.length →
    (∀ y ∈ ys, 0 ≤ y ∧ y ≤ 1) → xs.Pairwise (· ≤ ·) →
    0 ≤ auc ys xs ∧ auc ys xs ≤ xs.getLastD 0 - xs.headD 0
  | [], [], _, _, _ => by simp [auc]
  | [_], [x], _, _, _ => by simp [auc]
  | y₀ :: y₁ :: ys, x₀ :: x₁ :: xs, hl, hy, hx => by
    have ih := auc_between (y₁ :: ys) (x₁ :: xs) (by simpa using hl)
      (fun y h => hy y (List.mem_cons_of_mem _ h)) (List.Pairwise.of_cons hx)
    have h0 := hy y₀ (by simp)
    have h1 := hy y₁ (by simp)
    have hx01 : x₀ ≤ x₁ := (List.pairwise_cons.mp hx).1 x₁ (by simp)
    rw [auc_trapezoid]
    have hlast : (x₀ :: x₁ :: xs).getLastD 0 = (x₁ :: xs).getLastD 0 := by
      simp [List.getLastD]
    rw [hlast]
    simp only [List.headD_cons] at ih ⊢
    have hd : 0 ≤ x₁ - x₀ := by linarith
    have hs0 : 0 ≤ y₀ + y₁ := by linarith
    have hs2 : y₀ + y₁ ≤ 2 := by linarith
    have ht0 : 0 ≤ (x₁ - x₀) * (y₀ + y₁) / 2 := by positivity
    have ht1 : (x₁ - x₀) * (y₀ + y₁) / 2 ≤ x₁ - x₀ := by nlinarith
    constructor <;> linarith [ih.1, ih.2]
  | [], _ :: _, hl, _, _ => by simp at hl
  | _ :: _, [], hl, _, _ => by simp at hl
  | [_], _ :: _ :: _, hl, _, _ => by simp at hl
  | _ :: _ :: _, [_], hl, _, _ => by simp at hl

/-- **AUC ∈ [0,1]** for a curve whose x runs non-decreasingly from 0 to 1 with y ∈ [0,1]
(monotonicity of y is not even needed). -/
theorem auc_bounds (ys xs : List ℚ) (hl : ys.length = xs.length)
    (hy : ∀ y ∈ ys, 0 ≤ y ∧ y ≤ 1) (hx : xs.Pairwise (· ≤ ·))
    (hfirst : xs.headD 0 = 0) (hlast : xs.getLastD 0 = 1) :
    0 ≤ auc ys xs ∧ auc ys xs ≤ 1 := by
  have := auc_between ys xs hl hy hx
  rw [hfirst, hlast] at this
  constructor <;> linarith [this.1, this.2]

/-! ### Non-vacuity -/
example : tprFpr 2 [(0,0),(1,1),(1,0),(0,0)] = (1/2, 0) := by
  simp [tprFpr, totalPos, falseNeg, falsePos]; norm_num
example : ZeroDiag 2 [(0,0),(1,1),(1,0),(0,0)] [(1,1),(1,0)] [(0,0),(0,0)] :=
  ⟨by decide, rfl, by simp⟩

end CE.Stats
