import CEModel.Discovery
import Mathlib.Algebra.Order.Field.Basic
import Mathlib.Algebra.Order.Floor.Defs
import Mathlib.Algebra.Order.Floor.Ring
import Mathlib.Tactic.Linarith
import Mathlib.Tactic.Positivity
import Mathlib.Tactic.FieldSimp
import Mathlib.Tactic.Ring
import Mathlib.Tactic.NormNum
import Mathlib.Data.Rat.Floor
import Mathlib.Data.List.Sort
import Mathlib.Data.List.GetD
import Mathlib.Data.List.Perm.Basic
import Mathlib.Order.Interval.Finset.Nat

/-! # C03 — helper lemmas

1. the counting core of Appendix B.1 of DESIGN.md (unchanged);
2. the arithmetic of the two coherence inequalities;
3. bridges from the list-based executable model (`sortRat`, `percentile`, `countP`) to the
   index-function form used by the counting core. -/

namespace CE.Disc.C03

open Finset

/-! ## 1. Counting core (Appendix B.1, unchanged)
`s` = ascending null values (as a function on indices `< n`), count = `#{i < n | obs ≤ s i}`. -/

/-- If obs > thr ≥ s lo (s monotone), at most n-1-lo null values are ≥ obs. -/
theorem count_ge_le_of_pass (n : ℕ) (s : ℕ → ℚ) (hs : ∀ i j, i ≤ j → j < n → s i ≤ s j)
    (obs thr : ℚ) (lo : ℕ) (hlo : lo < n) (hthr : s lo ≤ thr) (hpass : thr < obs) :
    ((range n).filter (fun i => obs ≤ s i)).card ≤ n - 1 - lo := by
  have hsub : (range n).filter (fun i => obs ≤ s i) ⊆ Finset.Ioo lo n := by
    intro i hi
    simp only [mem_filter, mem_range] at hi
    simp only [Finset.mem_Ioo]
    refine ⟨?_, hi.1⟩
    by_contra hle
    push Not at hle
    have := hs i lo hle hlo
    linarith [hi.2]
  calc _ ≤ (Finset.Ioo lo n).card := card_le_card hsub
    _ = n - lo - 1 := by simp
    _ = n - 1 - lo := by omega

/-- If obs ≤ thr ≤ s hi, at least n - hi null values are ≥ obs. -/
theorem count_ge_ge_of_fail (n : ℕ) (s : ℕ → ℚ) (hs : ∀ i j, i ≤ j → j < n → s i ≤ s j)
    (obs thr : ℚ) (hi : ℕ) (_hhi : hi < n) (hthr : thr ≤ s hi) (hfail : obs ≤ thr) :
    n - hi ≤ ((range n).filter (fun i => obs ≤ s i)).card := by
  have hsub : Finset.Ico hi n ⊆ (range n).filter (fun i => obs ≤ s i) := by
    intro i h
    simp only [Finset.mem_Ico] at h
    simp only [mem_filter, mem_range]
    exact ⟨h.2, le_trans (le_trans hfail hthr) (hs hi i h.1 h.2)⟩
  calc n - hi = (Finset.Ico hi n).card := by simp
    _ ≤ _ := card_le_card hsub

/-! ## 2. Arithmetic -/

/-- the fractional index `h = (n-1)(1-α)` of `np.percentile(null, 100(1-α))` -/
def hIdx (n : ℕ) (α : ℚ) : ℚ := ((n : ℚ) - 1) * (1 - α)

/-- `⌊h⌋` -/
def loIdx (n : ℕ) (α : ℚ) : ℕ := ⌊hIdx n α⌋₊

/-- `min(⌊h⌋+1, n-1)` (NumPy's upper neighbour, clipped to the last index) -/
def hiIdx (n : ℕ) (α : ℚ) : ℕ := min (loIdx n α + 1) (n - 1)

theorem hIdx_nonneg {n : ℕ} (hn : 1 ≤ n) {α : ℚ} (hα1 : α < 1) : 0 ≤ hIdx n α := by
  have : (1 : ℚ) ≤ n := by exact_mod_cast hn
  unfold hIdx
  apply mul_nonneg <;> linarith

theorem loIdx_le_h {n : ℕ} (hn : 1 ≤ n) {α : ℚ} (hα1 : α < 1) : (loIdx n α : ℚ) ≤ hIdx n α :=
  Nat.floor_le (hIdx_nonneg hn hα1)

theorem h_lt_loIdx_succ (n : ℕ) (α : ℚ) : hIdx n α < (loIdx n α : ℚ) + 1 :=
  Nat.lt_floor_add_one _

theorem loIdx_le {n : ℕ} (hn : 1 ≤ n) {α : ℚ} (hα0 : 0 < α) (hα1 : α < 1) : loIdx n α ≤ n - 1 := by
  have h1 : (1 : ℚ) ≤ n := by exact_mod_cast hn
  have h2 := loIdx_le_h hn hα1
  have h3 : hIdx n α ≤ (n : ℚ) - 1 := by unfold hIdx; nlinarith
  have h4 : ((loIdx n α : ℕ) : ℚ) ≤ ((n - 1 : ℕ) : ℚ) := by
    rw [Nat.cast_sub hn]; push_cast; linarith
  exact_mod_cast h4

theorem loIdx_lt {n : ℕ} (hn : 1 ≤ n) {α : ℚ} (hα0 : 0 < α) (hα1 : α < 1) : loIdx n α < n := by
  have := loIdx_le hn hα0 hα1; omega

theorem hiIdx_lt {n : ℕ} (hn : 1 ≤ n) (α : ℚ) : hiIdx n α < n := by
  unfold hiIdx; omega

theorem loIdx_le_hiIdx {n : ℕ} (hn : 1 ≤ n) {α : ℚ} (hα0 : 0 < α) (hα1 : α < 1) :
    loIdx n α ≤ hiIdx n α := by
  have := loIdx_le hn hα0 hα1; unfold hiIdx; omega

/-- arithmetic of the pass side: `c ≤ n-1-⌊h⌋ → c/n ≤ α + 1/n` -/
theorem p_le_of_count (n : ℕ) (hn : 1 ≤ n) (α : ℚ) (hα0 : 0 < α) (hα1 : α < 1) (c : ℕ)
    (hc : c ≤ n - 1 - loIdx n α) : (c : ℚ) / n ≤ α + 1 / n := by
  have hnpos : (0 : ℚ) < n := by exact_mod_cast hn
  have hfl := h_lt_loIdx_succ n α
  have hlo_le := loIdx_le hn hα0 hα1
  have hcq : (c : ℚ) ≤ (n : ℚ) - 1 - loIdx n α := by
    have : (c : ℚ) ≤ ((n - 1 - loIdx n α : ℕ) : ℚ) := by exact_mod_cast hc
    rw [Nat.cast_sub hlo_le, Nat.cast_sub hn] at this
    simpa using this
  rw [div_le_iff₀ hnpos]
  have : (α + 1 / n) * n = α * n + 1 := by field_simp
  rw [this]
  unfold hIdx at hfl
  nlinarith

/-- arithmetic of the fail side: `n - min(⌊h⌋+1, n-1) ≤ c → c/n ≥ α - 1/n` -/
theorem p_ge_of_count (n : ℕ) (hn : 1 ≤ n) (α : ℚ) (hα0 : 0 < α) (hα1 : α < 1) (c : ℕ)
    (hc : n - hiIdx n α ≤ c) : α - 1 / n ≤ (c : ℚ) / n := by
  have hnpos : (0 : ℚ) < n := by exact_mod_cast hn
  have hfl := loIdx_le_h hn hα1
  have hlo_le := loIdx_le hn hα0 hα1
  have hc' : n - (loIdx n α + 1) ≤ c := by unfold hiIdx at hc; omega
  have hcq : (n : ℚ) - (loIdx n α + 1) ≤ c := by
    have h1 : ((n : ℕ) : ℚ) ≤ ((c + (loIdx n α + 1) : ℕ) : ℚ) := by
      have : n ≤ c + (loIdx n α + 1) := by omega
      exact_mod_cast this
    push_cast at h1; linarith
  rw [le_div_iff₀ hnpos]
  have : (α - 1 / n) * n = α * n - 1 := by field_simp
  rw [this]
  unfold hIdx at hfl
  nlinarith

/-! ## 3. Bridges from the list model -/

theorem floor_toNat_eq (q : ℚ) : q.floor.toNat = ⌊q⌋₊ := by
  have : (⌊q⌋ : ℤ) = q.floor := rfl
  rw [← this, Int.floor_toNat]

theorem length_sortRat (l : List ℚ) : (sortRat l).length = l.length := by
  unfold sortRat; exact List.length_mergeSort l

theorem sortRat_perm (l : List ℚ) : (sortRat l).Perm l := by
  unfold sortRat; exact List.mergeSort_perm l _

theorem sortRat_pairwise (l : List ℚ) : (sortRat l).Pairwise (· ≤ ·) := by
  have h := List.pairwise_mergeSort (le := fun a b : ℚ => decide (a ≤ b))
    (fun a b c hab hbc => by
      simp only [decide_eq_true_eq] at hab hbc ⊢; exact le_trans hab hbc)
    (fun a b => by
      simp only [Bool.or_eq_true, decide_eq_true_eq]; exact le_total a b) l
  unfold sortRat
  exact h.imp (fun hab => by simpa using hab)

/-- a sorted list read through `getD` is monotone on valid indices -/
theorem getD_mono_of_pairwise {s : List ℚ} (hs : s.Pairwise (· ≤ ·)) :
    ∀ i j, i ≤ j → j < s.length → s.getD i 0 ≤ s.getD j 0 := by
  intro i j hij hj
  have hi : i < s.length := lt_of_le_of_lt hij hj
  rw [List.getD_eq_getElem _ _ hi, List.getD_eq_getElem _ _ hj]
  rcases Nat.lt_or_eq_of_le hij with h | h
  · exact List.pairwise_iff_getElem.mp hs i j hi hj h
  · subst h; exact le_refl _

/-- a `countP` over a list is the cardinality of the set of satisfying indices -/
theorem countP_eq_card_range (s : List ℚ) (p : ℚ → Bool) :
    s.countP p = ((range s.length).filter (fun i => p (s.getD i 0) = true)).card := by
  induction s using List.reverseRecOn with
  | nil => simp
  | append_singleton s a ih =>
    rw [List.countP_append, List.length_append, List.length_singleton, Finset.range_add_one,
      Finset.filter_insert]
    have hlast : (s ++ [a]).getD s.length 0 = a := by simp
    have hsame : (range s.length).filter (fun i => p ((s ++ [a]).getD i 0) = true)
        = (range s.length).filter (fun i => p (s.getD i 0) = true) := by
      apply Finset.filter_congr
      intro i hi
      rw [Finset.mem_range] at hi
      rw [List.getD_append _ _ _ _ hi]
    rw [hlast, hsame]
    by_cases hp : p a = true
    · rw [if_pos hp, Finset.card_insert_of_notMem (by simp), ih]
      simp [hp]
    · rw [if_neg hp, ih]
      simp [hp]

/-- the number of list entries `≥ obs` is invariant under sorting, and equals the index count -/
theorem countP_sortRat (null : List ℚ) (obs : ℚ) :
    null.countP (fun q => decide (obs ≤ q))
      = ((range null.length).filter (fun i => obs ≤ (sortRat null).getD i 0)).card := by
  rw [← (sortRat_perm null).countP_eq, countP_eq_card_range, length_sortRat]
  congr 1
  apply Finset.filter_congr
  intro i _
  simp

/-- all finite values pass through `mapM finOf` -/
theorem mapM_finOf_fin (null : List ℚ) : (null.map Val.fin).mapM finOf = some null := by
  induction null with
  | nil => rfl
  | cons a l ih => simp [List.mapM_cons, finOf, ih]

/-- a list of finite `Val`s is the image of a list of rationals -/
theorem exists_rat_list (l : List Val) (h : ∀ v ∈ l, ∃ q, v = Val.fin q) :
    ∃ qs : List ℚ, l = qs.map Val.fin := by
  induction l with
  | nil => exact ⟨[], rfl⟩
  | cons v l ih =>
    obtain ⟨q, rfl⟩ := h v (List.mem_cons_self ..)
    obtain ⟨qs, rfl⟩ := ih (fun w hw => h w (List.mem_cons_of_mem _ hw))
    exact ⟨q :: qs, rfl⟩

theorem countP_ge_fin (null : List ℚ) (obs : ℚ) :
    (null.map Val.fin).countP (fun v => Val.ge v (Val.fin obs))
      = null.countP (fun q => decide (obs ≤ q)) := by
  rw [List.countP_map]
  rfl

end CE.Disc.C03
