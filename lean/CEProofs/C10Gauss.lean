import CEProofs.C08

/-! # C10 (Gaussian part) — the Gaussian estimate ignores sample order, the order of the
conditioning columns and the X/Y roles

All statements are about the model `CE.Gauss.ratio` / `corrDet` / `dets` (the estimator is
`½ · log ratio`, and the singular-sentinel branches are decided on `dets`).
* `row_perm`   : jointly permuting the rows (`W'.Perm W` as lists of rows);
* `swap_xy`    : presenting the columns as `Y, X, Z` with `kx ↔ ky`;
* `z_col_perm` : reordering the columns of `Z`.
A column-reordered sample is any `W'` with `IsColSel W' W cs` (same number of rows, column `i` of
`W'` = column `cs[i]` of `W`), e.g. `selectCols W cs`. -/
namespace CE.Gauss

/-! ## Row permutations -/

theorem map_range_getD {α β : Type} (l : List α) (d : α) (g : α → β) :
    (List.range l.length).map (fun r => g (l.getD r d)) = l.map g := by
  apply List.ext_getElem
  · simp
  · intro i h1 h2
    simp only [List.length_map, List.length_range] at h1
    simp [h1]

theorem colMean_eq_map (W : Sample) (c : ℕ) :
    colMean W c = (W.map (fun row => row.getD c 0)).sum / (W.length : ℚ) := by
  unfold colMean entry
  rw [map_range_getD W [] (fun row => row.getD c 0)]

theorem cov_eq_map (W : Sample) (a b : ℕ) :
    cov W a b = (W.map (fun row =>
      (row.getD a 0 - colMean W a) * (row.getD b 0 - colMean W b))).sum
        / ((W.length : ℚ) - 1) := by
  unfold cov entry
  simp only []
  rw [map_range_getD W [] (fun row => (row.getD a 0 - colMean W a) * (row.getD b 0 - colMean W b))]

theorem colMean_row_perm {W' W : Sample} (h : W'.Perm W) (c : ℕ) : colMean W' c = colMean W c := by
  rw [colMean_eq_map, colMean_eq_map, h.length_eq, (h.map _).sum_eq]

/-- every covariance entry is a function of the multiset of rows -/
theorem cov_row_perm {W' W : Sample} (h : W'.Perm W) (a b : ℕ) : cov W' a b = cov W a b := by
  rw [cov_eq_map, cov_eq_map, h.length_eq, colMean_row_perm h a, colMean_row_perm h b,
    (h.map _).sum_eq]

theorem corrDet_row_perm {W' W : Sample} (h : W'.Perm W) (cols : List ℕ) :
    corrDet W' cols = corrDet W cols := by
  have : cov W' = cov W := by
    funext a b
    exact cov_row_perm h a b
  unfold corrDet covTable
  rw [this]

/-- **`row_perm`.** Jointly reordering the rows of `X`, `Y`, `Z` (any permutation of the list of
rows) leaves the ratio — and each of the four determinants the code branches on — unchanged. -/
theorem row_perm {W' W : Sample} (h : W'.Perm W) (kx ky kz : ℕ) :
    ratio W' kx ky kz = ratio W kx ky kz ∧ dets W' kx ky kz = dets W kx ky kz := by
  unfold ratio dets
  simp only [corrDet_row_perm h, and_self]

/-! ## X ↔ Y -/

/-- **`swap_xy`.** Exchanging `X` and `Y` (columns presented as `Y, X, Z`, dimensions
`ky, kx, kz`) leaves the ratio unchanged (`= ratio_symm` of C08). -/
theorem swap_xy {W' W : Sample} (kx ky kz : ℕ)
    (h : IsColSel W' W (span kx ky ++ span 0 kx ++ span (kx + ky) kz)) :
    ratio W' ky kx kz = ratio W kx ky kz :=
  ratio_symm kx ky kz h

/-! ## Reordering the columns of `Z` -/

theorem ratioL_perm_z (W : Sample) (X Y : List ℕ) {Z Z' : List ℕ} (h : Z'.Perm Z) :
    ratioL W X Y Z' = ratioL W X Y Z := by
  unfold ratioL
  rw [corrDet_perm W (h.append_left X), corrDet_perm W (h.append_left Y), corrDet_perm W h,
    corrDet_perm W (h.append_left (X ++ Y))]

/-- **`z_col_perm`.** If `W'` presents the columns of `W` as `X, Y, Z'` where `Z'` is any
reordering of the `kz` conditioning columns, the ratio is unchanged. -/
theorem z_col_perm {W' W : Sample} (kx ky kz : ℕ) {Z' : List ℕ}
    (hp : Z'.Perm (span (kx + ky) kz))
    (h : IsColSel W' W (span 0 kx ++ span kx ky ++ Z')) :
    ratio W' kx ky kz = ratio W kx ky kz := by
  have := ratio_of_colSel h
  rw [hp.length_eq] at this
  simp only [span_length] at this
  rw [this, ratioL_perm_z W _ _ hp, ratio_eq_ratioL]

/-- the four determinants the code branches on are unchanged as well -/
theorem z_col_perm_dets {W' W : Sample} (kx ky kz : ℕ) {Z' : List ℕ}
    (hp : Z'.Perm (span (kx + ky) kz))
    (h : IsColSel W' W (span 0 kx ++ span kx ky ++ Z')) :
    dets W' kx ky kz = dets W kx ky kz := by
  have := dets_of_colSel h
  rw [hp.length_eq] at this
  simp only [span_length] at this
  rw [this, corrDet_perm W (hp.append_left (span 0 kx)),
    corrDet_perm W (hp.append_left (span kx ky)), corrDet_perm W hp,
    corrDet_perm W (hp.append_left (span 0 kx ++ span kx ky))]
  rfl

/-- under `swap_xy` the first two determinants (`XZ`, `YZ`) are exchanged, `Z` and `XYZ` are
unchanged: the singular-sentinel branches agree -/
theorem swap_xy_dets {W' W : Sample} (kx ky kz : ℕ)
    (h : IsColSel W' W (span kx ky ++ span 0 kx ++ span (kx + ky) kz)) :
    dets W' ky kx kz
      = [corrDet W (span kx ky ++ span (kx + ky) kz), corrDet W (span 0 kx ++ span (kx + ky) kz),
         corrDet W (span (kx + ky) kz), corrDet W (span 0 kx ++ span kx ky ++ span (kx + ky) kz)] := by
  have := dets_of_colSel h
  simp only [span_length] at this
  rw [this, corrDet_perm W (List.Perm.append_right (span (kx + ky) kz)
    (List.perm_append_comm (l₁ := span kx ky) (l₂ := span 0 kx)))]

/-! ## Non-vacuity -/

/-- `row_perm` on the 4 × 3 sample `W0` of C08, rows reversed -/
example : ratio W0.reverse 1 1 1 = ratio W0 1 1 1 := (row_perm (List.reverse_perm W0) 1 1 1).1
example : ratio W0.reverse 1 1 1 = 140 / 19 := by decide +kernel

/-- `swap_xy` is applicable to every sample -/
example (W : Sample) (kx ky kz : ℕ) :
    ratio (selectCols W (span kx ky ++ span 0 kx ++ span (kx + ky) kz)) ky kx kz
      = ratio W kx ky kz :=
  swap_xy kx ky kz (isColSel_selectCols W _)

/-- `z_col_perm` is applicable to every sample and every reordering `Z'` of the `Z` columns -/
example (W : Sample) (kx ky kz : ℕ) (Z' : List ℕ) (hp : Z'.Perm (span (kx + ky) kz)) :
    ratio (selectCols W (span 0 kx ++ span kx ky ++ Z')) kx ky kz = ratio W kx ky kz :=
  z_col_perm kx ky kz hp (isColSel_selectCols W _)

/-- concretely: the two conditioning columns of `W1` exchanged -/
example : ratio (selectCols W1 (span 0 1 ++ span 1 1 ++ [3, 2])) 1 1 2 = ratio W1 1 1 2 :=
  z_col_perm 1 1 2 (List.Perm.swap 2 3 []) (isColSel_selectCols W1 _)

example : selectCols W1 (span 0 1 ++ span 1 1 ++ [3, 2])
    = [[1, 2, 1, 0], [2, 1, 0, 1], [3, 5, 2, 1], [4, 3, 1, 3], [5, 4, 4, 2]] := by decide +kernel

end CE.Gauss
