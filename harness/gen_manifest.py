"""Regenerates MANIFEST.json from the table below (keeps it valid at all times)."""
import json
from pathlib import Path

VERIF = Path(__file__).resolve().parent.parent
BASE_OFF = "cd /repo && /venv/bin/python -m pytest -ra -q -p no:cacheprovider --timeout=900 --continue-on-collection-errors"

CHECKS = {
    "C17": dict(
        category="proof",
        text="Lean theorems (all n, all binary zero-diagonal matrices, all polylines over Q): TPR=TP/(TP+FN), FPR=FP/(FP+TN) over off-diagonal pairs, ranges, identical=>(1,0), complement=>(0,1), AUC trapezoid in [0,1]; tied to core/stats.py by exact-vs-float correspondence, exhaustive for n<=3",
        design_ref="DESIGN.md §6 C17",
        note="Trusts: Lean kernel + Mathlib; driver runtime; flattening glue (matrix -> pair list) and float rounding are covered by the correspondence (1e-12), not by the theorems",
        technique="Lean 4 proof over Q + exhaustive/random differential correspondence with the model driver",
    ),
}

NOT_YET = {}


def main():
    props = [json.loads(l) for l in (VERIF / "properties.jsonl").read_text().splitlines() if l.strip()]
    checks, na = [], []
    for p in props:
        pid = p["id"]
        if pid in CHECKS:
            c = CHECKS[pid]
            checks.append(
                {
                    "property_id": pid,
                    "quick_cmd": f"./check {pid} quick",
                    "thorough_cmd": f"./check {pid} thorough",
                    "evidence_file": f"evidence/{pid}.json",
                    "replay_cmd_template": f"./check {pid} quick  # replay file: {{path}} (records seed, tier and the failing case)",
                    "engine": "lean4-model+python-correspondence",
                    "level_claimed": {"category": c["category"], "text": c["text"], "design_ref": c["design_ref"]},
                    "level_note": c["note"],
                    "technique": c["technique"],
                }
            )
        else:
            na.append({"property_id": pid, "reason": NOT_YET.get(pid, "check not built yet in this round (planned: Lean 4 model + theorems + correspondence, see DESIGN.md §6)")})
    man = {
        "version": 1,
        "setup_cmd": "./setup.sh",
        "hooks": {
            "guard": "CAUSATIONENTROPY_VERIF",
            "enable": "no source hook is needed: checks observe the implementation by replacing module attributes from outside (DESIGN.md §7.2); the harness sets CAUSATIONENTROPY_VERIF=1 for uniformity",
            "baseline_off_cmd": BASE_OFF,
            "source_commits": [],
            "add_only": True,
        },
        "engines": [
            {
                "name": "lean4-model+python-correspondence",
                "path": "lean/ (CEModel = executable model, CEProofs = theorems, Main = driver), harness/ (correspondence, translator, audit)",
                "serves_properties": [c["property_id"] for c in checks],
                "kind_free_text": "machine-checked proof in Lean 4 about an executable model, tied to the Python source by differential correspondence (and by AST-regenerated tables where the code is table-shaped)",
            }
        ],
        "checks": checks,
        "not_applicable": na,
        "notes": "See DESIGN.md. known_findings.json lists genuine defects (open/fixed). Exit codes: 0 held, 1 VIOLATION, 2 infrastructure failure.",
    }
    (VERIF / "MANIFEST.json").write_text(json.dumps(man, indent=1) + "\n")


if __name__ == "__main__":
    main()
