"""Regenerates MANIFEST.json from the table below (keeps it valid at all times).
A property is claimed only when harness/props/<id>.py and lean/Audit/<id>.lean both exist."""
import json
from pathlib import Path

VERIF = Path(__file__).resolve().parent.parent
BASE_OFF = "cd /repo && /venv/bin/python -m pytest -ra -q -p no:cacheprovider --timeout=900 --continue-on-collection-errors"
TB = "Trusted: Lean 4.33 kernel, axioms {propext, Classical.choice, Quot.sound} (audited every run), Mathlib v4.33, the Lean compiler/runtime running the model driver, harness/*.py (correspondence, shims, statistics). "

CHECKS = {
    "C01": ("proof", "Lean theorems over the discovery model for every series/estimator/permutation stream/method: lagged_entry (row r = time max_lag+r, predictor delayed by exactly tau), label bijection, edge_semantics (cmi = est(lagged u, target v | other reported parents)), pvalue_formula (fraction of X-row-shuffled surrogates >= cmi); end-to-end (Master.lean): discover_parent_tests / discover_edges_of_survivors / discover_spec state these about the value returned by the model's discover, every reported parent having one passed forward and one passed backward shuffle test with p <= alpha+1/n, under the permutation hypothesis PermOK that is checked on every recorded run. Tied to discover_network by exact replay of the real run (recorded permutation stream, scripted rational estimator on coded series that identify (variable,time) of every array entry) plus recomputation of each real edge's cmi with the public dispatcher. Translator (every run): the slices that build the lagged design, the own-history block and the target matrix, the loop nest and the (variable, lag) labelling are REGENERATED from the source and must give, for all max_lag, tau, T and rows, exactly the model's alignment (ObC01: ring / decide).",
            "Modelled not verified: NumPy slicing/column_stack, Generator stream (recorded), LASSO selections (oracle with checked range). 'Agrees with an independent permutation estimate up to sampling error' is a measurement (Hoeffding, budget 1e-9).",
            "Lean 4 proof on executable discovery model + exact event-trace correspondence on coded series"),
    "C02": ("proof", "Lean refinement theorems: for ALL landscapes f, verdict oracles (stateful allowed) and backward visiting orders, the code-shaped standard/alternative forward phases, the backward phase and their composition satisfy the declarative oCSE rule (arg-max among undecided given initial+accepted, accept iff pass, std continues / alt stops, each accepted re-tested once against current survivors, levels alpha_f/alpha_b); consequences: result duplicate-free subset, one edge per survivor; end-to-end (Master.lean): discover_target_spec — the parents reported by the model's discover for each target are the survivors of the declarative rule on that target's own oracles and stream block. Tie: the real functions driven by scripted oracles, EXHAUSTIVE decision-tree enumeration for <=3 candidates (all weak orderings x verdicts x visiting orders), sampled to 8 candidates incl. NaN/tie-heavy landscapes; every implementation trace is replayed through the model and judged by the declarative checker specOK.",
            "NaN is ordered as NumPy's argmax treats it (first NaN wins, fails every comparison). Oracles are observed at module-attribute seams.",
            "Lean 4 refinement proof + exhaustive small-scope differential replay"),
    "C03": ("proof", "Lean theorems on the model of shuffle_test for every finite null, alpha in (0,1), n>=1: threshold inside the order-statistic bracket of the (1-alpha) quantile, p = #{null >= obs}/n, value echoed, pass => p <= alpha+1/n, fail => p >= alpha-1/n (also for ANY threshold inside the bracket, covering NumPy's rounded interpolation), fully tied null never significant, exactly n surrogates each on (X permuted, Y, Z); the verdict/p-value comparison operators are REGENERATED from the source on every run and must equal the model's (ObC03, decideTestG_codeShape). Tie: real shuffle_test with the estimator seam spied (arrays/permutations recorded), scripted tie-free/partially tied/fully tied nulls and the five real estimators; exact comparison with the model's decision.",
            "np.percentile rounding is bracket-checked per call; Generator.permutation trusted; non-finite nulls outside the quantifier.",
            "Lean 4 proof + spy-based differential correspondence"),
    "C04": ("proof", "Lean theorem shuffle_level: for EVERY statistic, data set, N, n>=1, alpha: P(pass) <= (n-floor((n-1)(1-alpha)))/(n+1) under row-exchangeability (counting proof over Perm(Fin N)^(n+1), transported to the code's sampling scheme); corollary <= alpha+1/n under the decidable side condition SC(alpha,n) (true for the default 0.05/200); without SC only c04_level_partial is proved and literal_bound_fails gives a machine-checked counterexample. Tie = C03's correspondence of the same function. Measurements (not proofs): rejection frequency of the real test for the five estimators (exact binomial tail) and network fraction on white noise (Hoeffding), budget 1e-9.",
            "Exchangeability under the null and uniformity of Generator.permutation are hypotheses. The whole-network sentence (arg-max selection before testing) is measured only.",
            "Lean 4 counting proof (exactness of permutation tests) + statistical measurement with explicit error budget"),
    "C05": ("other", "Partial: Lean theorem planted_recovered (if the planted column is the strict arg-max whenever undecided and passes its forward and backward tests, the output contains the edge with exactly its variable and lag, for any behaviour of all other candidates) + check that premise=>conclusion holds in every instrumented real run; the recovery FREQUENCY (>=98% / >=75%) is estimator power on random data and is decided only by an exact binomial lower-tail measurement (budget 1e-9).",
            "The distribution of estimator values on random data cannot be exhibited by a model; stated as measurement.",
            "Lean 4 conditional-recovery theorem + binomial measurement"),
    "C06": ("proof", "Lean theorems for every series/estimator/stream/LASSO oracle in range: nodes = range n, edges join nodes, 1<=lag<=L, p=k/n_shuffles with k<=n, no duplicate (source,target,lag), cmi never finite-negative given C09's floor, rejects (NotImplementedError / ValueError iff T<=L+2, the only errors); LASSO selections modelled as selOfCoef (indices of non-zero coefficients: in range, strictly increasing, duplicate-free — lassoOK_of_coef) with the LassoLarsIC/plain-Lasso branch condition. Guard lists regenerated from the AST each run (obligation). Tie: real discover_network on ndarray/DataFrame, int/float, constant/duplicated columns vs the model graph given recorded oracles; sklearn fits spied (coefficient vector -> model selection, branch taken); byte comparison of the caller's object.",
            "Node naming and 'input untouched' are runtime facts checked by the harness, not theorems; the LASSO coefficient vector itself is scikit-learn's (input to the model).",
            "Lean 4 proof + AST-regenerated guard tables + differential correspondence"),
    "C07": ("proof", "Thin by design: the model needs no state (history_independent, globals_untouched are immediate); presentation_independent has content (the result depends on the series only through its entries in the window). All assurance that the implementation is such a function comes from the tie: recorded generator stream must equal a fresh default_rng(42) stream consumed in model order; histories of interleaved calls / reseeded global RNGs / plotting; global RNG states compared before/after; presentations ndarray C/F, lists, DataFrame, int vs float; fresh-process probes, estimator warm-up histories on other data, buffers refilled in place, short-wide plain-Lasso branch. A genuine defect found this way (plain-Lasso fall-back advanced NumPy's global generator) is repaired by fix: commit ca4e9f7.",
            "A pure model cannot exhibit hidden state; the history-differential tie is what decides the property.",
            "Lean 4 (thin) + history/presentation differential testing against the model"),
    "C08": ("proof", "Lean theorems over Q with Mathlib's determinant (bridge detF = Matrix.det): ratio_cov, X<->Y symmetry, chain rule at the level of correlation determinants, scalar form 1/(1-r^2), invariance under per-column affine maps, row permutation; non-negativity for ALL block sizes (nonneg: 1 <= ratio whenever the four determinants are non-zero) via Fischer's inequality for PSD block matrices, proved here since Mathlib lacks it (fischer_inequality, covM_posSemidef, covM_koteljanskii); estimator = 1/2 log ratio. Tie: real gaussian (conditional) MI and dispatcher vs 1/2 log of the exact rational ratio (1e-8 abs + 1e-8 rel), LS-residual reference, sentinel/degenerate branches.",
            "log and float rounding are outside the theorems (tolerance).",
            "Lean 4 proof (Mathlib determinants) + exact-rational reference evaluation"),
    "C09": ("proof", "The dispatch tables are REGENERATED from the Python AST every run and checked by `decide` against tableOK; Lean theorems for every table passing the check: dispatch_value (documented estimator evaluated, every accepted setting is the caller's, with and without Z), dispatch_floor, non-finite pass-through, kde alias, unknown name raises. Independent spy-based tie: dispatcher value vs max(0, direct call with explicit settings) bit-for-bit over the cross product of names/paths/settings, planted nan/inf/negative returns.",
            "Translator (ast pattern matching) trusted, cross-checked against spied behaviour. One open known finding (geometric-kNN Z=None path drops k/metric).",
            "Translator-regenerated Lean obligation (decide) + spy-based differential check"),
    "C10": ("proof", "Lean theorems: kNN MI/CMI invariant under joint row permutation, X<->Y swap and Z column permutation (exact over Q), Gaussian ratio invariant under row permutation / swap / column order, KDE entropies invariant for uninterpreted exp/log; Poisson unconditional MI: closed form over the entropy vector, invariant under variable permutation / swap / column order for ANY entropy function, with poissonMI_symm_needed showing the conditional path's asymmetry is real; geometric-kNN MI/CMI: row permutation, X<->Y swap and Z-column order proved for the mathematical SVD-based correction (…_real in C10GeomSvd.lean: a coordinate permutation is rotOf of a permutation matrix, corrMath_rot), and for an arbitrary correction functional given its invariance (…_partial). Tie: Poisson unconditional path also compared with the model value;  metamorphic check on the real functions (all estimators, conditional and unconditional paths, row permutations, all Z column permutations, swap) at 1e-9 relative, purity (equal arguments equal results, arguments unmodified).",
            "LAPACK's floating-point SVD = the mathematical SVD is outside the theorems (tied numerically by C12's spectral tie). One open known finding (Poisson conditional path).",
            "Lean 4 invariance proofs + metamorphic testing of the implementation"),
    "C11": ("proof", "Lean theorems over Q: psi_free (for ANY psi with the digamma recurrence the KSG MI/CMI equal gamma-free harmonic-number forms), code_eq_spec (sort-whole-row/index-k/count-minus-one = k-th nearest OTHER sample / count of OTHER samples strictly inside, under tie-freeness, which is forced). KDE: definition = documented formula (thin), signed sums. Tie: exact rational value vs float result (1e-9) with near-tie filter; KDE Float evaluation of the same polymorphic definition vs sklearn-based implementation. Translator (every run): the radius construction and the strict counts are recognised and the digamma formulas of both kNN estimators are REGENERATED from the source as Lean terms in an arbitrary psi and proved equal to the model's knnMIψ / knnCMIψ for all psi, metrics, k and samples (ObC11).",
            "digamma at integers = harmonic numbers (recurrence hypothesis; scipy trusted); sklearn KernelDensity bandwidth rules mirrored; float rounding by tolerance.",
            "Lean 4 proof + exact-rational brute-force evaluation"),
    "C12": ("proof", "Lean theorems over R with Mathlib's singular values: the local correction is DEFINED mathematically (corrMath: ellipsoid count via the basis-free quadratic form z^T (Y^T Y)^-1 z <= 1, guarded log singular-value ratios) and geom_laws_real proves translation, rotation (unconditional), scaling (+ d log a, under guard-inactivity) and sample-order invariance of the whole estimator with no hypothesis about the correction; inEll_iff_svd_sum shows the SVD-based sum of the code equals the quadratic form for EVERY right singular basis; MI/CMI are the documented signed sums with clamp. Tie: independent reference evaluation of the published formula (own Jacobi SVD, no LAPACK) vs the real function at 1e-8; the four laws checked directly on the real function with the predicted deltas; neighbour/Y_i/Z_i seams vs the exact rational model; spectral tie: LAPACK's singular values vs exact symmetric polynomials (principal minors of Y^T Y) and every hyperellipsoid_check decision vs the exact Cramer quadratic form; distance matrices overwritten in place between calls. Since the repair 7d4df49 the rank decision on sigma_l is relative to sigma_0 and the scaling law needs the guard hypothesis on sigma_0 only (corrMath_scale_sigma0, geom_scale_svd_sigma0); ratioTermAbs_not_scale_invariant is the negative witness for the pre-fix absolute threshold.",
            "LAPACK's floating-point SVD = the mathematical SVD, and log/sqrt rounding, are outside the theorems (numerically tied). For k < d the Gram matrix is singular and the code's ellipsoid count is rounding noise: the mathematical model is not claimed faithful there and the laws are decided by the direct metamorphic check and the reference only.",
            "Lean 4 proof (Mathlib singular values) + exact spectral tie + independent reference evaluation + metamorphic laws"),
    "C13": ("proof", "Lean theorems for any ordered field and abstract pmf: loop_invariant/run_closed_form (the while loop equals the closed form), cont_mono/stop_index_mono (a vector call runs at least the terms of every scalar call), vector_is_scalar_plus_tail, tail_bound, elementwise_independent, zero-rate entries exactly 0, joint_def; negative witness for the pinned min rule. Tie: Float instance of the same definition + independent log-space reference vs poisson_entropy on a dense grid [0,500], tiny rates, mixed vectors/matrices; joint entropy exact. Translator (every run): both tolerances, strictness and reductions of the while condition, the update of `small` and the 0 log 0 mask are read off the source and must be the model's (ObC13: decide).",
            "Absolute accuracy 1e-9 against the infinite series (c13_accuracy_partial) is checked numerically only (needs Poisson tail bounds and SciPy's pmf error).",
            "Lean 4 proof (loop invariant) + reference evaluation"),
    "C14": ("proof", "Lean theorems on the converters: membership/locality characterisations, edges per mark with value/p/significant, errors, graph_roundtrip for every graph with unique (source,target,lag) and mirrored symmetric pairs, pcmci_roundtrip_partial (patterns without '<--'), negative witnesses for '<--' (open known finding). Link-type tables regenerated from the AST (obligation). Tie: both converters and both compositions vs the model; consistent patterns exhaustive for 2 nodes x lags {0,1}; random patterns to 5 nodes x 4 lags; malformed stream.",
            "Node identity = position in G.nodes(); NetworkX iteration order is input. '<--' round trip is a recorded known finding.",
            "Lean 4 proof (locality + finite table) + exhaustive small-scope correspondence"),
    "C15": ("proof", "Lean theorems: one row per edge in order with unchanged endpoints/attributes, header = base ++ supplied metadata in documented order for every subset of the 9 parameters, empty frame, PCMCI export lists symmetric links once. Column tables regenerated from the AST (obligation). Tie: random multigraphs (mixed labels, parallel edges, self-loops, missing attributes) x metadata subsets, cell-wise comparison.",
            "NetworkX edge iteration order and pandas DataFrame construction trusted.",
            "Lean 4 proof + AST-regenerated column tables + differential correspondence"),
    "C16": ("proof", "Lean theorems: sub_edges (membership), partition (under unique triples), companion_entry (nK x nK, first block row = lag adjacencies, sub-diagonal identities, zeros elsewhere) proved for the code-shaped block-writing model, companion_empty. Tie: exact integer comparison on random multigraphs, exhaustive for <=2 nodes and lags {0,1,2}. Translator (every run): subnetwork's filter attribute, orientation, copied attributes and defaults, and companion_matrix's loop ranges and slice arithmetic are REGENERATED from the source and must be the model's (ObC16: decide / ring for all lags and sizes).",
            "NetworkX container semantics trusted; property restricted to unique triples and lags >= 0.",
            "Lean 4 proof + exhaustive small-scope correspondence"),
    "C17": ("proof", "Lean theorems (all n, all binary zero-diagonal matrices, all polylines over Q): TPR=TP/(TP+FN), FPR=FP/(FP+TN) over off-diagonal pairs, ranges, identical=>(1,0), complement=>(0,1), AUC trapezoid in [0,1]; tied to core/stats.py by exact-vs-float correspondence, exhaustive for n<=3. Translator (every run): Compute_TPR_FPR is REGENERATED from the source (straight-line NumPy subset -> Lean term over Q) and proved equal to the model's tprFpr for ALL n and ALL entry lists (ObC17: rfl / field arithmetic).",
            "Flattening glue and float rounding covered by the correspondence (1e-12), not by the theorems.",
            "Lean 4 proof over Q + exhaustive/random differential correspondence"),
    "C18": ("proof", "Lean theorems: linear_in_eps, residual (X_t - A X_{t-1} = eps w_t), support on the transposed graph, radius_scaling for any eigen-pair, Poisson rate formula and floor. Tie: recording generator shim (every normal/uniform/Poisson draw and the rate argument of every rng.poisson call observed) replayed through the exact model; determinism and global-RNG checks. Translator (every run): the rate handed to rng.poisson in the double loop is REGENERATED from the source and proved equal to the model's poissonRate with floor 0.1 for all lambda, coupling, adjacency, previous row and node (ObC18).",
            "Spectral radius is LAPACK's; conditional mean of NumPy's Poisson sampler trusted (+ pooled z-test, measurement).",
            "Lean 4 proof + recorded-draw replay through the exact model"),
    "C19": ("proof", "Lean theorems: logistic_mem, step_mem, orbit_mem (induction over t, any n, any non-negative matrix with row sums <= 1), rowNormalise_ok; negative witness for the pre-fix update; the map logistic_map is REGENERATED from the source on every run and proved equal to the model's logistic for all rationals (ring). Tie: direct range check of every value + exact one-step replay of consecutive rows through the model; returned matrix vs model normalisation of the Erdos-Renyi adjacency. The update statement of the time loop is also REGENERATED (symbolic matrix algebra over the source, transposes tracked) and must be the model's stepRow through the ROW-normalised matrix for all sigma, f and rows (ObC19b: ring).",
            "Theorems over exact rationals; rounding covered by the direct range check on the float output.",
            "Lean 4 invariant proof + one-step simulation check"),
    "C20": ("other", "Partial: Lean theorems seedOrder_perm (any community output), optimise_perm (every iteration budget, move and accept stream), equispaced distinct positions, normalisation ranges (no division by zero), cmap index, arc radius total. Tie: real optimiser replayed on its own recorded move stream; real plot_causal_network on random multigraphs x option combinations: returns (Figure, Axes), no exception, graph deep-equal before/after, positions = model positions, same seed same order.",
            "Totality of the matplotlib/NetworkX drawing stack and non-mutation of a Python object are runtime facts: sampled, not proved.",
            "Partial Lean proof + sampled totality of the drawing stack"),
}


def main():
    props = [json.loads(l) for l in (VERIF / "properties.jsonl").read_text().splitlines() if l.strip()]
    checks, na = [], []
    for p in props:
        pid = p["id"]
        built = (VERIF / "harness" / "props" / f"{pid.lower()}.py").exists() and (VERIF / "lean" / "Audit" / f"{pid}.lean").exists()
        if built:
            cat, text, note, tech = CHECKS[pid]
            checks.append(
                {
                    "property_id": pid,
                    "quick_cmd": f"./check {pid} quick",
                    "thorough_cmd": f"./check {pid} thorough",
                    "evidence_file": f"evidence/{pid}.json",
                    "replay_cmd_template": f"./check {pid} quick  # the replay file {{path}} records seed, tier and the failing case; rerun with VERIF_SEED=<seed>",
                    "engine": "lean4-model+python-correspondence",
                    "level_claimed": {"category": cat, "text": text, "design_ref": f"DESIGN.md §6 {pid}"},
                    "level_note": TB + note,
                    "technique": tech,
                }
            )
        else:
            na.append({"property_id": pid, "reason": "check not built yet in this round (planned: Lean 4 model + theorems + correspondence, see DESIGN.md §6 " + pid + ")"})
    man = {
        "version": 1,
        "setup_cmd": "./setup.sh",
        "hooks": {
            "guard": "CAUSATIONENTROPY_VERIF",
            "enable": "no source hook is needed: checks observe the implementation by replacing module attributes from outside (DESIGN.md §7.2); the harness sets CAUSATIONENTROPY_VERIF=1 for uniformity",
            "baseline_off_cmd": BASE_OFF,
            "source_commits": [],
            "add_only": True,
        },
        "engines": [
            {
                "name": "lean4-model+python-correspondence",
                "path": "lean/ (CEModel = executable model, CEProofs = theorems, Main = driver), harness/ (correspondence, translator, audit)",
                "serves_properties": [c["property_id"] for c in checks],
                "kind_free_text": "machine-checked proof in Lean 4 about an executable model, tied to the Python source by differential correspondence (and by AST-regenerated tables where the code is table-shaped)",
            }
        ],
        "checks": checks,
        "not_applicable": na,
        "notes": "See DESIGN.md. known_findings.json lists genuine defects (open/fixed; six fix: commits in /repo). Exit codes: 0 held, 1 VIOLATION, 2 infrastructure failure.",
    }
    (VERIF / "MANIFEST.json").write_text(json.dumps(man, indent=1) + "\n")
    print("claimed:", [c["property_id"] for c in checks])


if __name__ == "__main__":
    main()
