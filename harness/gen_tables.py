"""Translator for table-shaped code: parses the CURRENT sources under /repo with `ast` and emits
lean/Generated/Tables.lean plus small obligation files. Run on every check that uses them.

If a piece of source no longer has a recognisable shape the corresponding table is reported as
`untranslatable` (the property is then decided by the spy-based correspondence alone).
"""
from __future__ import annotations

import ast
import re
import json
from pathlib import Path

import os
from common import LEAN, REPO, lean_file

# one directory per process: concurrent checks (other properties, other CE_REPO trees) must never see each other's tables
GEN = LEAN / "Generated" / f"run-{os.getpid()}"


def _cleanup():
    import shutil
    shutil.rmtree(GEN, ignore_errors=True)


import atexit
atexit.register(_cleanup)
CMI = "causationentropy/core/information/conditional_mutual_information.py"
MI = "causationentropy/core/information/mutual_information.py"
DISC = "causationentropy/core/discovery.py"
UTILS = "causationentropy/graph/utils.py"


def _parse(rel):
    return ast.parse((REPO / rel).read_text())


def _funcs(tree):
    return {n.name: n for n in tree.body if isinstance(n, ast.FunctionDef)}


def _lstr(s: str) -> str:
    return json.dumps(s, ensure_ascii=False)


def _llist(xs, f=_lstr):
    return "[" + ", ".join(f(x) for x in xs) + "]"


def _lpair(p):
    return f"({_lstr(p[0])}, {_lstr(p[1])})"


class Untranslatable(Exception):
    pass


# ------------------------------------------------------------------ C09 dispatcher tables

def _method_names(test):
    """`method == "x"` or an `or` of such -> list of names"""
    if isinstance(test, ast.BoolOp) and isinstance(test.op, ast.Or):
        out = []
        for v in test.values:
            out += _method_names(v)
        return out
    if (isinstance(test, ast.Compare) and len(test.ops) == 1 and isinstance(test.ops[0], ast.Eq)
            and isinstance(test.left, ast.Name) and test.left.id == "method"
            and isinstance(test.comparators[0], ast.Constant) and isinstance(test.comparators[0].value, str)):
        return [test.comparators[0].value]
    if (isinstance(test, ast.Compare) and len(test.ops) == 1 and isinstance(test.ops[0], ast.In)
            and isinstance(test.left, ast.Name) and test.left.id == "method"
            and isinstance(test.comparators[0], (ast.Tuple, ast.List, ast.Set))):
        return [e.value for e in test.comparators[0].elts]
    raise Untranslatable("dispatcher test " + ast.dump(test))


def _call_of(stmts, sigs):
    """first call to a known estimator function inside statements -> (callee, kws) with positional
    arguments beyond (X, Y[, Z]) mapped through the callee's signature"""
    for st in stmts:
        for node in ast.walk(st):
            if isinstance(node, ast.Call) and isinstance(node.func, ast.Name) and node.func.id in sigs:
                callee = node.func.id
                params = sigs[callee]["all"]
                kws = {}
                for pos, a in enumerate(node.args):
                    if pos < len(params) and params[pos] not in ("X", "Y", "Z"):
                        if isinstance(a, ast.Name):
                            kws[params[pos]] = a.id
                        else:
                            kws[params[pos]] = "<expr:" + ast.unparse(a) + ">"
                for k in node.keywords:
                    if k.arg is None:
                        raise Untranslatable("**kwargs in estimator call")
                    kws[k.arg] = k.value.id if isinstance(k.value, ast.Name) else "<expr:" + ast.unparse(k.value) + ">"
                return callee, sorted(kws.items())
    return None


def dispatch_tables():
    cmi_tree, mi_tree = _parse(CMI), _parse(MI)
    funcs = {**_funcs(mi_tree), **_funcs(cmi_tree)}
    sigs = {}
    for name, fn in funcs.items():
        if name.endswith("mutual_information"):
            allp = [a.arg for a in fn.args.args]
            sigs[name] = {"all": allp, "settings": [p for p in allp if p not in ("X", "Y", "Z")]}
    disp = funcs.get("conditional_mutual_information")
    if disp is None:
        raise Untranslatable("no conditional_mutual_information")
    chain = next((s for s in disp.body if isinstance(s, ast.If) and _is_method_test(s.test)), None)
    if chain is None:
        raise Untranslatable("no if-chain on method")
    if any(isinstance(s_, ast.If) and s_ is not chain and _is_method_test(s_.test) for s_ in ast.walk(disp) if s_ not in _orelse_chain(chain)):
        raise Untranslatable("dispatcher is not ONE if/elif chain on method (several separate tests)")
    branches, else_raises = [], False
    node = chain
    while True:
        names = _method_names(node.test)
        call = _call_of(node.body, sigs)
        if call is None:
            raise Untranslatable("branch without estimator call")
        branches.append((names, call))
        if len(node.orelse) == 1 and isinstance(node.orelse[0], ast.If):
            node = node.orelse[0]
            continue
        else_raises = any(isinstance(s, ast.Raise) and "ValueError" in ast.dump(s) for s in node.orelse)
        break
    # floor shape: `if np.isfinite(cmi): return max(0.0, cmi)` then `return cmi`
    floor_ok = False
    rest = disp.body[disp.body.index(chain) + 1:]
    if (len(rest) == 2 and isinstance(rest[0], ast.If) and ast.unparse(rest[0].test) == "np.isfinite(cmi)"
            and len(rest[0].body) == 1 and isinstance(rest[0].body[0], ast.Return)
            and ast.unparse(rest[0].body[0].value) in ("max(0.0, cmi)", "max(0, cmi)", "max(cmi, 0.0)", "max(cmi, 0)")
            and not rest[0].orelse and isinstance(rest[1], ast.Return) and ast.unparse(rest[1].value) == "cmi"):
        floor_ok = True
    if not floor_ok:
        # only the recognised floor is translated; any other way of writing it (or of not having it) is decided by the correspondence
        # (dispatcher == max(0, named estimator) on every sampled call), never by a table entry
        raise Untranslatable("floor is not `if np.isfinite(cmi): return max(0.0, cmi)` / `return cmi` after the chain")
    # Z-is-None fallbacks
    fallback = []
    for name, fn in funcs.items():
        if not name.endswith("_conditional_mutual_information"):
            continue
        zif = next((s for s in ast.walk(fn) if isinstance(s, ast.If) and ast.unparse(s.test) == "Z is None"), None)
        if zif is None:
            raise Untranslatable(f"{name}: no `if Z is None`")
        fallback.append((name, _call_of(zif.body, {k: v for k, v in sigs.items() if not k.endswith("_conditional_mutual_information")})))
    return {"dispatch": branches, "fallback": fallback,
            "accepts": sorted((k, v["settings"]) for k, v in sigs.items() if k != "conditional_mutual_information"),
            "else_raises": else_raises, "floor_shape": floor_ok,
            "dispatcher_defaults": _defaults(disp)}


def _orelse_chain(node):
    """the If nodes of an if/elif chain starting at `node`"""
    out = [node]
    while len(node.orelse) == 1 and isinstance(node.orelse[0], ast.If):
        node = node.orelse[0]
        out.append(node)
    return out


def _is_method_test(test):
    try:
        _method_names(test)
        return True
    except Untranslatable:
        return False


def _defaults(fn):
    args = fn.args.args
    d = fn.args.defaults
    out = {}
    for a, v in zip(args[len(args) - len(d):], d):
        try:
            out[a.arg] = ast.literal_eval(v)
        except Exception:
            out[a.arg] = ast.unparse(v)
    return out


def lean_dispatch(t):
    def call(c):
        return f"{{ callee := {_lstr(c[0])}, kws := {_llist(c[1], _lpair)} }}"

    disp = ",\n    ".join(f"({_llist(n)}, {call(c)})" for n, c in t["dispatch"])
    fb = ",\n    ".join(f"({_lstr(n)}, {'some ' + call(c) if c else 'none'})" for n, c in t["fallback"])
    acc = ",\n    ".join(f"({_lstr(n)}, {_llist(s)})" for n, s in t["accepts"])
    return (
        "def tables : CE.Dispatch.Tables where\n"
        f"  dispatch := [\n    {disp}]\n  fallback := [\n    {fb}]\n  accepts := [\n    {acc}]\n"
        f"  elseRaises := {str(t['else_raises']).lower()}\n  floorShape := {str(t['floor_shape']).lower()}\n"
    )


# ------------------------------------------------------------------ C06 / C07 discovery guards

def _literal_names(node, consts):
    """string list out of a list/tuple/set literal, a frozenset/tuple/list/set call on one, or a name bound to one"""
    if isinstance(node, (ast.List, ast.Tuple, ast.Set)) and all(isinstance(e, ast.Constant) and isinstance(e.value, str) for e in node.elts):
        return [e.value for e in node.elts]
    if isinstance(node, ast.Call) and isinstance(node.func, ast.Name) and node.func.id in ("frozenset", "tuple", "list", "set") and len(node.args) == 1:
        return _literal_names(node.args[0], consts)
    if isinstance(node, ast.Name) and node.id in consts:
        return consts[node.id]
    return None


def discovery_tables():
    tree = _parse(DISC)
    if _funcs(tree).get("discover_network") is None:
        raise Untranslatable("no discover_network")
    fn = _funcs(tree)["discover_network"]
    # constant name lists bound anywhere in the module (module level or inside functions)
    consts = {}
    for node in ast.walk(tree):
        if isinstance(node, ast.Assign) and len(node.targets) == 1 and isinstance(node.targets[0], ast.Name):
            v = _literal_names(node.value, {})
            if v is not None:
                consts[node.targets[0].id] = v
    methods = infos = None
    guard = None
    seed = None
    rng_calls = []
    for node in ast.walk(tree):
        if isinstance(node, ast.If) and isinstance(node.test, ast.Compare) and len(node.test.ops) == 1 and isinstance(node.test.ops[0], ast.NotIn) \
                and isinstance(node.test.left, ast.Name) and any(isinstance(s, ast.Raise) and "NotImplementedError" in ast.dump(s) for s in node.body):
            names = _literal_names(node.test.comparators[0], consts)
            if node.test.left.id == "method" and names is not None:
                methods = names
            if node.test.left.id == "information" and names is not None:
                infos = names
        if isinstance(node, ast.If):
            src = ast.unparse(node.test)
            if "max_lag" in src and any(isinstance(s, ast.Raise) and "ValueError" in ast.dump(s) for s in node.body):
                guard = src
        if isinstance(node, ast.Call) and ast.unparse(node.func).split(".")[-1] == "default_rng":      # (np.random.default_rng, default_rng, npr.default_rng, ...)
            a = node.args
            if a and isinstance(a[0], ast.Constant) and isinstance(a[0].value, int):
                seed = a[0].value
    # global RNG usage anywhere in the discovery module
    for node in ast.walk(tree):
        if isinstance(node, ast.Call):
            s = ast.unparse(node.func)
            if s.startswith("np.random.") and s not in ("np.random.default_rng",):
                rng_calls.append(s)
            if s.startswith("random."):
                rng_calls.append(s)
    mod_level_rng = [ast.unparse(s) for s in tree.body if isinstance(s, ast.Assign) and "default_rng" in ast.unparse(s)]
    return {"methods": methods, "informations": infos, "guard": guard, "seed": seed,
            "global_rng_calls": rng_calls, "module_level_rng": mod_level_rng, "defaults": _defaults(fn)}


# ------------------------------------------------------------------ C14 / C15 graph utils tables

def utils_tables():
    tree = _parse(UTILS)
    out = {}
    for s in tree.body:
        if isinstance(s, ast.Assign) and isinstance(s.targets[0], ast.Name) and s.targets[0].id in ("LINK_TYPE_SEMANTICS", "SEMANTIC_TO_LINK_TYPE"):
            out[s.targets[0].id] = list(ast.literal_eval(s.value).items())
    funcs = _funcs(tree)
    ntd = funcs.get("network_to_dataframe")
    if ntd is not None:
        pairs = []
        for node in ast.walk(ntd):
            if (isinstance(node, ast.If) and isinstance(node.test, ast.Compare) and isinstance(node.test.ops[0], ast.IsNot)
                    and isinstance(node.test.left, ast.Name) and len(node.body) == 1 and isinstance(node.body[0], ast.Assign)):
                tgt = node.body[0].targets[0]
                if isinstance(tgt, ast.Subscript) and isinstance(tgt.slice, ast.Constant) and ast.unparse(node.body[0].value) == node.test.left.id:
                    pairs.append((node.test.left.id, tgt.slice.value))
        out["param_cols"] = pairs
        for node in ast.walk(ntd):
            if isinstance(node, ast.Assign) and isinstance(node.targets[0], ast.Name) and isinstance(node.value, ast.List):
                if node.targets[0].id == "base_cols":
                    out["base_cols"] = [e.value for e in node.value.elts]
                if node.targets[0].id == "metadata_order":
                    out["metadata_order"] = [e.value for e in node.value.elts]
    ptd = funcs.get("pcmci_network_to_dataframe")
    if ptd is not None:
        for node in ast.walk(ptd):
            if isinstance(node, ast.Assign) and isinstance(node.targets[0], ast.Name) and isinstance(node.value, ast.List):
                if node.targets[0].id in ("base_columns", "optional_columns"):
                    out[node.targets[0].id] = [e.value for e in node.value.elts]
    return out


# ------------------------------------------------------------------ small pure arithmetic functions (C19 logistic_map)

SYN = "causationentropy/datasets/synthetic.py"


def _arith(node, params):
    """Python arithmetic expression over the function's parameters and numeric literals -> Lean term over Rat"""
    if isinstance(node, ast.BinOp) and type(node.op) in (ast.Add, ast.Sub, ast.Mult, ast.Div):
        op = {ast.Add: "+", ast.Sub: "-", ast.Mult: "*", ast.Div: "/"}[type(node.op)]
        return f"({_arith(node.left, params)} {op} {_arith(node.right, params)})"
    if isinstance(node, ast.UnaryOp) and isinstance(node.op, ast.USub):
        return f"(-{_arith(node.operand, params)})"
    if isinstance(node, ast.Name) and node.id in params:
        return node.id
    if isinstance(node, ast.Constant) and isinstance(node.value, (int, float)) and not isinstance(node.value, bool):
        from fractions import Fraction
        q = Fraction(node.value)
        return f"(({q.numerator} : Rat) / {q.denominator})" if q.denominator != 1 else f"({q.numerator} : Rat)"
    raise Untranslatable(f"not plain arithmetic: {ast.dump(node)[:80]}")


def arithmetic_function(rel, name):
    """`def name(a, b, ...): return <arithmetic>` (docstring allowed) -> (params, Lean term)"""
    fn = _funcs(_parse(rel)).get(name)
    if fn is None:
        raise Untranslatable(f"{name} not found in {rel}")
    body = [st for st in fn.body if not (isinstance(st, ast.Expr) and isinstance(st.value, ast.Constant) and isinstance(st.value.value, str))]
    if len(body) != 1 or not isinstance(body[0], ast.Return) or fn.args.defaults or fn.args.kwonlyargs or fn.args.vararg or fn.args.kwarg:
        raise Untranslatable(f"{name} is not a single `return <expression>`")
    params = [a.arg for a in fn.args.args]
    return params, _arith(body[0].value, params)


def obligation_standalone(name: str, src: str):
    """Compile a self-contained generated obligation file; returns (ok, output)."""
    GEN.mkdir(parents=True, exist_ok=True)
    f = GEN / f"{name}.lean"
    f.write_text(src)
    rc, out = lean_file(f)
    return rc == 0 and "error" not in out and "sorry" not in out, out[-600:]


# ------------------------------------------------------------------ C03 decision operators of shuffle_test

_CMP = {ast.Gt: "gt", ast.GtE: "ge", ast.Lt: "lt", ast.LtE: "le"}
_FLIP = {"gt": "lt", "ge": "le", "lt": "gt", "le": "ge"}
_PCT_FORMS = {"100 * (1 - alpha)", "(1 - alpha) * 100", "100 - 100 * alpha", "100.0 * (1.0 - alpha)", "100 * (1.0 - alpha)", "(1.0 - alpha) * 100"}


def shuffle_shape():
    """Reads the comparison operators of `shuffle_test`'s verdict and p-value off the source. Recognised shape only:
    a returned dict literal with "Pass": observed <op> threshold (either way round), threshold = np.percentile(NULL, 100*(1-alpha)),
    "P_value": np.mean(NULL <op> observed) (either way round). Anything else is Untranslatable (not an alarm)."""
    fn = _funcs(_parse(DISC)).get("shuffle_test")
    if fn is None:
        raise Untranslatable("shuffle_test not found")
    params = [a.arg for a in fn.args.args]
    if len(params) < 4:
        raise Untranslatable("unexpected signature")
    obs = params[3]
    assigns = {}
    for st in fn.body:
        if isinstance(st, ast.Assign) and len(st.targets) == 1 and isinstance(st.targets[0], ast.Name):
            assigns[st.targets[0].id] = st.value
    rets = [st for st in fn.body if isinstance(st, ast.Return)]
    if len(rets) != 1 or not isinstance(rets[0].value, ast.Dict):
        raise Untranslatable("no single returned dict literal")
    d = {k.value: v for k, v in zip(rets[0].value.keys, rets[0].value.values) if isinstance(k, ast.Constant)}
    if set(d) != {"Threshold", "Value", "Pass", "P_value"}:
        raise Untranslatable(f"returned keys {sorted(d)}")

    def res(node):
        return assigns.get(node.id, node) if isinstance(node, ast.Name) and node.id in assigns and node.id != obs else node

    def is_call(node, mod, name):
        return isinstance(node, ast.Call) and isinstance(node.func, ast.Attribute) and node.func.attr == name and isinstance(node.func.value, ast.Name) and node.func.value.id == mod

    null_names = {k for k, v in assigns.items() if is_call(v, "np", "empty") or is_call(v, "np", "zeros")}
    thr_names = {k for k, v in assigns.items() if is_call(v, "np", "percentile")}
    if len(null_names) != 1 or len(thr_names) != 1:
        raise Untranslatable("null / threshold variables not recognised")
    null, thr = next(iter(null_names)), next(iter(thr_names))
    pc = assigns[thr]
    if len(pc.args) != 2 or pc.keywords or not (isinstance(pc.args[0], ast.Name) and pc.args[0].id == null) or ast.unparse(pc.args[1]) not in _PCT_FORMS:
        raise Untranslatable("threshold is not np.percentile(NULL, 100 * (1 - alpha))")
    if not (isinstance(d["Threshold"], ast.Name) and d["Threshold"].id == thr and isinstance(d["Value"], ast.Name) and d["Value"].id == obs):
        raise Untranslatable("Threshold / Value entries")

    def cmp_of(node, left, right):
        node = res(node)
        if not (isinstance(node, ast.Compare) and len(node.ops) == 1 and type(node.ops[0]) in _CMP and isinstance(node.left, ast.Name) and isinstance(node.comparators[0], ast.Name)):
            raise Untranslatable("not a single comparison of two names")
        a, b, op = node.left.id, node.comparators[0].id, _CMP[type(node.ops[0])]
        if (a, b) == (left, right):
            return op
        if (a, b) == (right, left):
            return _FLIP[op]
        raise Untranslatable(f"comparison of {a} and {b}")

    pass_op = cmp_of(d["Pass"], obs, thr)
    pv = res(d["P_value"])
    if not (is_call(pv, "np", "mean") and len(pv.args) == 1 and not pv.keywords):
        raise Untranslatable("P_value is not np.mean(<comparison>)")
    p_op = cmp_of(pv.args[0], null, obs)
    return {"passOp": pass_op, "pOp": p_op}


# ------------------------------------------------------------------ emit + obligations

def generate():
    """Regenerate Generated/Tables.lean. Returns (tables dict, list of notes)."""
    GEN.mkdir(parents=True, exist_ok=True)
    notes = []
    tabs = {}
    parts = ["import CEModel.Dispatch\nimport CEModel.GraphUtils\n/-! GENERATED from /repo by harness/gen_tables.py -- do not edit. -/\nnamespace Generated\n"]
    try:
        tabs["dispatch"] = dispatch_tables()
        parts.append(lean_dispatch(tabs["dispatch"]))
    except (Untranslatable, SyntaxError, Exception) as e:  # noqa
        notes.append(f"dispatch untranslatable: {e}")
        tabs["dispatch"] = None
    try:
        tabs["discovery"] = discovery_tables()
        d = tabs["discovery"]
        if d["methods"] is not None:
            parts.append(f"def methods : List String := {_llist(d['methods'])}\n")
        if d["informations"] is not None:
            parts.append(f"def informations : List String := {_llist(d['informations'])}\n")
    except Exception as e:  # noqa
        notes.append(f"discovery untranslatable: {e}")
        tabs["discovery"] = None
    try:
        tabs["utils"] = utils_tables()
        u = tabs["utils"]
        if "LINK_TYPE_SEMANTICS" in u:
            parts.append(f"def linkTypeSemantics : List (String × String) := {_llist(u['LINK_TYPE_SEMANTICS'], _lpair)}\n")
        if "SEMANTIC_TO_LINK_TYPE" in u:
            parts.append(f"def semanticToLinkType : List (String × String) := {_llist(u['SEMANTIC_TO_LINK_TYPE'], _lpair)}\n")
        if "param_cols" in u:
            parts.append(f"def paramCols : List (String × String) := {_llist(u['param_cols'], _lpair)}\n")
        for k, nm in (("base_cols", "baseCols"), ("metadata_order", "metadataOrder"), ("base_columns", "pcmciBaseCols"), ("optional_columns", "pcmciOptionalCols")):
            if k in u:
                parts.append(f"def {nm} : List String := {_llist(u[k])}\n")
    except Exception as e:  # noqa
        notes.append(f"utils untranslatable: {e}")
        tabs["utils"] = None
    parts.append("end Generated\n")
    (GEN / "Tables.lean").write_text("\n".join(parts))
    return tabs, notes


def obligation(name: str, body: str):
    """Compile one generated obligation file against Generated/Tables.lean; returns (ok, output)."""
    tables_src = (GEN / "Tables.lean").read_text()
    # inline the tables so each obligation is a single self-contained file
    src = tables_src + "\n" + body + "\n"
    f = GEN / f"{name}.lean"
    f.write_text(src)
    rc, out = lean_file(f)
    ok = rc == 0 and "error" not in out and "sorry" not in out
    return ok, out[-600:]


# ------------------------------------------------------------------ C17 Compute_TPR_FPR regenerated as a Lean term

STATS = "causationentropy/core/stats.py"

_TPRFPR_PROOF = """  intro n ps
  first
    | rfl
    | (simp only [Generated.tprFpr, CE.Stats.tprFpr, CE.Stats.falseNeg, CE.Stats.falsePos, CE.Stats.totalPos]; rfl)
    | (simp only [Generated.tprFpr, CE.Stats.tprFpr, CE.Stats.falseNeg, CE.Stats.falsePos, CE.Stats.totalPos,
                  sub_pos, sub_neg, gt_iff_lt, ge_iff_le]
       refine Prod.ext ?_ ?_ <;> dsimp only <;> split_ifs <;>
         first
           | rfl
           | (exfalso; linarith)
           | (exfalso; nlinarith)
           | ring1
           | (have hne := ne_of_gt ‹_ < _›; field_simp; done)
           | (have hne := ne_of_gt ‹_ < _›; field_simp; ring1)
           | (congr 1; ring1))
"""


def tprfpr_obligation_source():
    """`Compute_TPR_FPR(A, B)` of the CURRENT source as a Lean function of the side length and the flattened list of
    entry pairs, with the obligation that it equals the model's `CE.Stats.tprFpr` for ALL n and ALL pair lists."""
    from pyexpr import Sym, Untranslatable as U
    fn = _funcs(_parse(STATS)).get("Compute_TPR_FPR")
    if fn is None:
        raise Untranslatable("Compute_TPR_FPR not found")
    params = [a.arg for a in fn.args.args]
    if len(params) != 2 or fn.args.defaults or fn.args.kwonlyargs or fn.args.vararg or fn.args.kwarg:
        raise Untranslatable(f"Compute_TPR_FPR takes {params}")
    try:
        out = Sym({params[0]: ("elem", "p.1"), params[1]: ("elem", "p.2")}, size_names=params).run(fn.body)
    except U as e:
        raise Untranslatable(str(e))
    if out is None or len(out) != 2 or any(k != "scal" for k, _ in out):
        raise Untranslatable("does not return a pair of scalars")
    term = f"({out[0][1]}, {out[1][1]})"
    return ("import CEModel.Stats\nimport Mathlib.Tactic.Ring\nimport Mathlib.Tactic.FieldSimp\nimport Mathlib.Tactic.Linarith\n"
            "/-! GENERATED from /repo by harness/gen_tables.py -- do not edit. -/\n"
            f"def Generated.tprFpr (n : Nat) (ps : List (Rat × Rat)) : Rat × Rat :=\n  {term}\n"
            "example : ∀ (n : Nat) (ps : List (Rat × Rat)), Generated.tprFpr n ps = CE.Stats.tprFpr n ps := by\n" + _TPRFPR_PROOF)


# ------------------------------------------------------------------ C18 Poisson rate line regenerated as a Lean term

def _innermost_body(fn, depth=2):
    """the body of the `depth`-fold nested `for v in range(...)` loops of a function, with the loop variables"""
    loops, body = [], fn.body
    for _ in range(depth):
        fors = [st for st in body if isinstance(st, ast.For)]
        if len(fors) != 1 or not (isinstance(fors[0].target, ast.Name) and isinstance(fors[0].iter, ast.Call)
                                  and isinstance(fors[0].iter.func, ast.Name) and fors[0].iter.func.id == "range") or fors[0].orelse:
            raise Untranslatable("loop nest not recognised")
        loops.append(fors[0])
        body = fors[0].body
    return loops, body


def poisson_rate_obligation_source():
    """The rate handed to `rng.poisson` inside the double loop of `poisson_coupled_oscillators`, as a Lean function of
    (lambda_base, coupling_strength, s) with s = sum_j A[j, i] * X[t-1, j] (recognised only in exactly that orientation),
    and the obligation that the model's `poissonRate` with the floor *read off the source* is that function."""
    from pyexpr import Sym, Untranslatable as U
    fn = _funcs(_parse(SYN)).get("poisson_coupled_oscillators")
    if fn is None:
        raise Untranslatable("poisson_coupled_oscillators not found")
    params = [a.arg for a in fn.args.args]
    if "lambda_base" not in params or "coupling_strength" not in params:
        raise Untranslatable(f"parameters {params}")
    # A must be the plain adjacency (no transpose), X the output array
    adj = [st.targets[0].id for st in fn.body if isinstance(st, ast.Assign) and len(st.targets) == 1 and isinstance(st.targets[0], ast.Name)
           and ast.unparse(st.value) in ("nx.to_numpy_array(G)", "networkx.to_numpy_array(G)")]
    rets = [st for st in fn.body if isinstance(st, ast.Return)]
    if len(adj) != 1 or len(rets) != 1 or not (isinstance(rets[0].value, ast.Tuple) and len(rets[0].value.elts) == 2 and all(isinstance(e, ast.Name) for e in rets[0].value.elts)):
        raise Untranslatable("adjacency / return not recognised")
    A, X = adj[0], rets[0].value.elts[0].id
    if rets[0].value.elts[1].id != A or sum(1 for n_ in ast.walk(fn) if isinstance(n_, ast.Assign) and any(isinstance(t, ast.Name) and t.id == A for t in n_.targets)) != 1:
        raise Untranslatable("adjacency is reassigned")
    (lt, li), body = _innermost_body(fn)
    t, i = lt.target.id, li.target.id
    if ast.unparse(lt.iter) not in ("range(1, T)",) or ast.unparse(li.iter) not in ("range(n)",):
        raise Untranslatable("loop ranges")
    col, prev = f"{A}[:, {i}]", (f"{X}[{t} - 1, :]", f"{X}[{t} - 1]")
    forms = set()
    for pv in prev:
        forms |= {f"np.sum({col} * {pv})", f"np.sum({pv} * {col})", f"np.dot({col}, {pv})", f"np.dot({pv}, {col})", f"{col} @ {pv}", f"{pv} @ {col}",
                  f"({col} * {pv}).sum()", f"({pv} * {col}).sum()"}

    def atoms(node, sym):
        if isinstance(node, (ast.Call, ast.BinOp)) and ast.unparse(node) in forms:
            return ("scal", "s")
        return None

    last = body[-1]
    if not (isinstance(last, ast.Assign) and ast.unparse(last.targets[0]) == f"{X}[{t}, {i}]" and isinstance(last.value, ast.Call)
            and isinstance(last.value.func, ast.Attribute) and last.value.func.attr == "poisson" and len(last.value.args) == 1 and not last.value.keywords):
        raise Untranslatable("the draw is not X[t, i] = rng.poisson(<rate>)")
    try:
        sym = Sym({"lambda_base": ("scal", "lam"), "coupling_strength": ("scal", "c")}, atoms=atoms)
        if sym.run(body[:-1]) is not None:
            raise Untranslatable("return inside the loop")
        kind, term = sym.ev(last.value.args[0])
    except U as e:
        raise Untranslatable(str(e))
    if kind != "scal":
        raise Untranslatable("rate is not a scalar")
    return ("import CEModel.Synthetic\nimport Mathlib.Tactic.Ring\nimport Mathlib.Tactic.Linarith\nimport Mathlib.Tactic.SplitIfs\nimport Mathlib.Order.Lattice\nimport Mathlib.Algebra.Order.Field.Rat\n"
            "/-! GENERATED from /repo by harness/gen_tables.py -- do not edit. -/\n"
            f"def Generated.rate (lam c s : Rat) : Rat :=\n  {term}\n"
            "def Generated.floor : Rat := " + _arith(ast.Constant(value=0.1), []) + "\n"
            "example : ∀ (lam c : Rat) (A : CE.Syn.Mat) (x : CE.Syn.Vec) (i : Nat),\n"
            "    CE.Syn.poissonRate Generated.floor lam c A x i\n"
            "      = Generated.rate lam c (CE.Syn.total (List.zipWith (· * ·) (A.map (fun row => row.getD i 0)) x)) := by\n"
            "  intro lam c A x i\n"
            "  first\n    | rfl\n"
            "    | (simp only [CE.Syn.poissonRate, Generated.rate, Generated.floor]; done)\n"
            "    | (simp only [CE.Syn.poissonRate, Generated.rate, Generated.floor]\n"
            "       first\n         | rfl\n         | (congr 1; ring1)\n         | (rw [max_comm]; first | rfl | (congr 1; ring1))\n"
            "         | (simp only [max_def, min_def]; split_ifs <;> first | rfl | ring1 | linarith | (exfalso; linarith)))\n")


# ------------------------------------------------------------------ C19 update step of logisic_dynamics regenerated as a Lean term

class _Lin:
    """matrix expression as a formal integer combination of the identity and the row-normalised matrix W (or its transpose)"""

    def __init__(self, co):
        self.co = {k: v for k, v in co.items() if v != 0}

    def T(self):
        return _Lin({(m, (not tr) if m == "W" else tr): v for (m, tr), v in self.co.items()})

    def add(self, o, sign=1):
        co = dict(self.co)
        for k, v in o.co.items():
            co[k] = co.get(k, 0) + sign * v
        return _Lin(co)


_ROWNORM = [
    "{R} = np.sum({A}, axis=1)",
    "{M} = {R} > 0",
    "{A}[{M}] = {A}[{M}] / {R}[{M}, np.newaxis]",
]


def logistic_step_obligation_source():
    """Component i of the update `XY[i] = ...` of `logisic_dynamics`, as a Lean function of (sigma, f_i, d) with
    f = logistic_map(previous row) and d = (W f)_i, W the row-normalised adjacency -- obtained by symbolic matrix algebra
    over the CURRENT source (transposes tracked) -- with the obligation that the model's `stepRow` is that function."""
    fn = _funcs(_parse(SYN)).get("logisic_dynamics")
    if fn is None:
        raise Untranslatable("logisic_dynamics not found")
    mats, seen_norm, Aname = {}, 0, None
    names = {}
    loop = None
    for st in fn.body:
        src = ast.unparse(st)
        if isinstance(st, ast.Expr) and isinstance(st.value, ast.Constant):
            continue
        if isinstance(st, ast.For):
            loop = st
            continue
        if isinstance(st, ast.Return):
            continue
        if isinstance(st, ast.Assign) and len(st.targets) == 1 and isinstance(st.targets[0], ast.Name):
            tgt, val = st.targets[0].id, st.value
            vs = ast.unparse(val)
            if vs in ("nx.to_numpy_array(G)",):
                Aname = tgt; mats[tgt] = "ADJ"; continue
            if Aname and src == _ROWNORM[0].format(R=tgt, A=Aname) and mats.get(Aname) == "ADJ":
                names["R"] = tgt; seen_norm = 1; continue
            if seen_norm == 1 and src == _ROWNORM[1].format(M=tgt, R=names["R"]):
                names["M"] = tgt; seen_norm = 2; continue
            m = _mat_expr(val, mats)
            if m is not None:
                mats[tgt] = m; continue
            if any(isinstance(n_, ast.Name) and n_.id in mats for n_ in ast.walk(val)):
                raise Untranslatable(f"matrix statement outside the subset: {src[:60]}")
            continue            # rng, G, XY = zeros, ... (no matrix involved)
        if seen_norm == 2 and src == _ROWNORM[2].format(A=Aname, M=names["M"], R=names["R"]):
            mats[Aname] = _Lin({("W", False): 1}); seen_norm = 3; continue
        if isinstance(st, ast.Assign) and isinstance(st.targets[0], ast.Subscript):
            if any(isinstance(n_, ast.Name) and n_.id in mats for n_ in ast.walk(st)):
                raise Untranslatable(f"matrix statement outside the subset: {src[:60]}")
            continue
        raise Untranslatable(f"statement outside the subset: {src[:60]}")
    if seen_norm != 3 or loop is None or len(loop.body) != 1:
        raise Untranslatable("row normalisation / time loop not recognised")
    it = loop.target.id if isinstance(loop.target, ast.Name) else None
    up = loop.body[0]
    if not (it and isinstance(up, ast.Assign) and ast.unparse(up.targets[0]) in (f"XY[{it}, :]", f"XY[{it}]")):
        raise Untranslatable("update statement")
    fsrc = {f"logistic_map(XY[{it} - 1, :], r)", f"logistic_map(XY[{it} - 1], r)"}

    def vec(node):
        """component i of a vector expression as a Lean term in sigma, fi, d"""
        s = ast.unparse(node)
        if s in fsrc:
            return "fi"
        if isinstance(node, ast.Attribute) and node.attr == "T":
            return vec(node.value)          # transpose of a 1-D array is the array
        if isinstance(node, ast.BinOp) and isinstance(node.op, (ast.Add, ast.Sub)):
            return f"({vec(node.left)} {'+' if isinstance(node.op, ast.Add) else '-'} {vec(node.right)})"
        if isinstance(node, ast.BinOp) and isinstance(node.op, ast.Mult):
            for a, b in ((node.left, node.right), (node.right, node.left)):
                if isinstance(a, ast.Name) and a.id == "sigma":
                    return f"(sigma * {vec(b)})"
                if isinstance(a, ast.Constant) and isinstance(a.value, (int, float)):
                    return f"({_arith(a, [])} * {vec(b)})"
        if isinstance(node, ast.UnaryOp) and isinstance(node.op, ast.USub):
            return f"(-{vec(node.operand)})"
        prod = None
        if isinstance(node, ast.Call) and ast.unparse(node.func) in ("np.dot", "np.matmul") and len(node.args) == 2 and not node.keywords:
            prod = node.args
        if isinstance(node, ast.BinOp) and isinstance(node.op, ast.MatMult):
            prod = (node.left, node.right)
        if isinstance(node, ast.Call) and isinstance(node.func, ast.Attribute) and node.func.attr == "dot" and len(node.args) == 1:
            prod = (node.func.value, node.args[0])
        if prod is not None:
            M, v = _mat_expr(prod[0], mats), prod[1]
            if M is None or vec(v) != "fi":
                raise Untranslatable(f"product outside the subset: {s[:60]}")
            parts = []
            for (m, tr), co in sorted(M.co.items()):
                if m == "I":
                    parts.append(f"(({co} : Rat) * fi)")
                elif m == "W" and not tr:
                    parts.append(f"(({co} : Rat) * d)")
                else:
                    raise Untranslatable("coupling through the transposed normalised matrix")
            return "(" + " + ".join(parts or ["(0 : Rat)"]) + ")"
        raise Untranslatable(f"vector expression outside the subset: {s[:60]}")

    term = vec(up.value)
    return ("import CEModel.Synthetic\nimport Mathlib.Tactic.Ring\n/-! GENERATED from /repo by harness/gen_tables.py -- do not edit. -/\n"
            f"def Generated.stepComp (sigma fi d : Rat) : Rat :=\n  {term}\n"
            "example : ∀ (sigma fi : Rat) (row f : CE.Syn.Vec), CE.Syn.stepRow sigma fi row f = Generated.stepComp sigma fi (CE.Syn.dot row f) := by\n"
            "  intro sigma fi row f; simp only [CE.Syn.stepRow, Generated.stepComp]; ring1\n")


def _mat_expr(node, mats):
    """symbolic value of a matrix expression (None when `node` is not one)"""
    if isinstance(node, ast.Name) and isinstance(mats.get(node.id), _Lin):
        return mats[node.id]
    if isinstance(node, ast.Attribute) and node.attr == "T":
        m = _mat_expr(node.value, mats)
        return m.T() if m is not None else None
    if isinstance(node, ast.Call) and ast.unparse(node.func) in ("np.eye", "np.identity") and len(node.args) == 1 and not node.keywords:
        return _Lin({("I", False): 1})
    if isinstance(node, ast.Call) and ast.unparse(node.func) in ("np.array", "np.asarray", "np.ascontiguousarray") and len(node.args) == 1 and not node.keywords:
        return _mat_expr(node.args[0], mats)
    if isinstance(node, ast.Call) and isinstance(node.func, ast.Attribute) and node.func.attr in ("copy", "transpose") and not node.args:
        m = _mat_expr(node.func.value, mats)
        return None if m is None else (m.T() if node.func.attr == "transpose" else m)
    if isinstance(node, ast.BinOp) and isinstance(node.op, (ast.Add, ast.Sub)):
        a, b = _mat_expr(node.left, mats), _mat_expr(node.right, mats)
        if a is not None and b is not None:
            return a.add(b, 1 if isinstance(node.op, ast.Add) else -1)
    return None


# ------------------------------------------------------------------ C16 subnetwork filter / companion block arithmetic

LINALG = "causationentropy/core/linalg.py"


def _get_call(node, var):
    """`<var>.get('<key>'[, default])` -> (key, default-node-or-None); else None"""
    if (isinstance(node, ast.Call) and isinstance(node.func, ast.Attribute) and node.func.attr == "get" and isinstance(node.func.value, ast.Name)
            and node.func.value.id == var and 1 <= len(node.args) <= 2 and not node.keywords and isinstance(node.args[0], ast.Constant) and isinstance(node.args[0].value, str)):
        return node.args[0].value, (node.args[1] if len(node.args) == 2 else None)
    return None


def linalg_obligation_source():
    """`subnetwork`: which attribute filters, which endpoints and attributes (with which defaults) are copied;
    `companion_matrix`: the loop ranges and the slice arithmetic of the two block assignments -- all read off the CURRENT
    source, emitted as Lean definitions, with the obligations that they are the model's (`subEdges`, `companion`)."""
    from pyexpr import Sym, Untranslatable as U
    funcs = _funcs(_parse(LINALG))
    sub, comp = funcs.get("subnetwork"), funcs.get("companion_matrix")
    if sub is None or comp is None:
        raise Untranslatable("subnetwork / companion_matrix not found")
    # ---- subnetwork
    sp = [a.arg for a in sub.args.args]
    if len(sp) != 2:
        raise Untranslatable(f"subnetwork takes {sp}")
    Gn, lagn = sp
    fors = [st for st in sub.body if isinstance(st, ast.For)]
    if len(fors) != 1 or ast.unparse(fors[0].iter) != f"{Gn}.edges(keys=True, data=True)" or not (isinstance(fors[0].target, ast.Tuple) and len(fors[0].target.elts) == 4):
        raise Untranslatable("edge loop of subnetwork")
    u, v, _k, data = [e.id for e in fors[0].target.elts]
    body = fors[0].body
    if len(body) != 1 or not isinstance(body[0], ast.If) or body[0].orelse:
        raise Untranslatable("edge loop body of subnetwork")
    test = body[0].test
    if not (isinstance(test, ast.Compare) and len(test.ops) == 1 and isinstance(test.ops[0], ast.Eq)):
        raise Untranslatable("filter of subnetwork")
    sides = [test.left, test.comparators[0]]
    g = [s for s in sides if _get_call(s, data)]
    o = [s for s in sides if isinstance(s, ast.Name) and s.id == lagn]
    if len(g) != 1 or len(o) != 1 or _get_call(g[0], data)[1] is not None:
        raise Untranslatable("filter of subnetwork is not data.get(<key>) == lag")
    filt = _get_call(g[0], data)[0]
    env = {}
    add = None
    for st in body[0].body:
        if isinstance(st, ast.Assign) and len(st.targets) == 1 and isinstance(st.targets[0], ast.Name) and _get_call(st.value, data):
            env[st.targets[0].id] = _get_call(st.value, data)
        elif isinstance(st, ast.Expr) and isinstance(st.value, ast.Call) and ast.unparse(st.value.func).endswith(".add_edge"):
            add = st.value
        else:
            raise Untranslatable(f"statement in subnetwork: {ast.unparse(st)[:50]}")
    if add is None or len(add.args) != 2 or not all(isinstance(a, ast.Name) for a in add.args):
        raise Untranslatable("add_edge of subnetwork")
    ends = [a.id for a in add.args]
    if sorted(ends) != sorted([u, v]):
        raise Untranslatable("add_edge endpoints")
    copied = []
    for kw in add.keywords:
        val = env.get(kw.value.id) if isinstance(kw.value, ast.Name) else _get_call(kw.value, data)
        if kw.arg is None or val is None or val[1] is None or not (isinstance(val[1], ast.Constant) and isinstance(val[1].value, (int, float)) and not isinstance(val[1].value, bool)):
            raise Untranslatable("copied attribute of subnetwork")
        copied.append((kw.arg, val[0], _arith(val[1], [])))
    # ---- companion_matrix
    loops = [st for st in comp.body if isinstance(st, ast.For)]
    if len(loops) != 2 or not all(isinstance(l.target, ast.Name) for l in loops):
        raise Untranslatable("loops of companion_matrix")
    ml = [st for st in comp.body if isinstance(st, ast.Assign) and ast.unparse(st.targets[0]) == "max_lag"]
    if len(ml) != 1 or ast.unparse(ml[0].value).replace('"', "'") != "max((data.get('lag', 0) for _, _, data in G.edges(data=True)), default=0)":
        raise Untranslatable("max_lag of companion_matrix")
    nn = [st for st in comp.body if isinstance(st, ast.Assign) and ast.unparse(st.value) == "G.number_of_nodes()"]
    if len(nn) != 1:
        raise Untranslatable("node count of companion_matrix")
    nname = nn[0].targets[0].id
    out = {}
    for which, loop, rng_src in (("top", loops[0], "range(1, max_lag + 1)"), ("sub", loops[1], "range(1, max_lag)")):
        if ast.unparse(loop.iter) != rng_src:
            raise Untranslatable(f"{which} loop range {ast.unparse(loop.iter)}")
        sym = Sym({loop.target.id: ("scal", "j"), nname: ("scal", "n")})
        assign = None
        for st in loop.body:
            if isinstance(st, ast.Assign) and isinstance(st.targets[0], ast.Subscript):
                assign = st
                break
            if isinstance(st, ast.Assign) and isinstance(st.targets[0], ast.Name):
                try:
                    sym.env[st.targets[0].id] = sym.ev(st.value)
                except U:
                    sym.env[st.targets[0].id] = ("opaque", ast.unparse(st.value))
            else:
                raise Untranslatable(f"statement in {which} loop")
        sl = assign.targets[0].slice if assign is not None else None
        if not (isinstance(sl, ast.Tuple) and len(sl.elts) == 2 and all(isinstance(e, ast.Slice) and e.step is None and e.lower is not None and e.upper is not None for e in sl.elts)):
            raise Untranslatable(f"block assignment of the {which} loop")
        try:
            terms = [sym.ev(b)[1] for e in sl.elts for b in (e.lower, e.upper)]
        except U as e:
            raise Untranslatable(str(e))
        rhs = assign.value
        if which == "top":
            k, t = sym.env.get(rhs.id, (None, None)) if isinstance(rhs, ast.Name) else (None, None)
            hname = next((nm for nm, (kk, tt) in sym.env.items() if kk == "opaque" and tt == f"subnetwork(G, {loop.target.id})"), None)
            if k != "opaque" or hname is None or t != f"nx.adjacency_matrix({hname}).toarray()":
                raise Untranslatable("top block is not the adjacency of subnetwork(G, lag)")
        elif ast.unparse(rhs) not in (f"np.eye({nname})", f"np.identity({nname})"):
            raise Untranslatable("sub-diagonal block is not the identity")
        out[which] = terms
    L = ["import CEModel.Linalg\nimport Mathlib.Tactic.Ring\n/-! GENERATED from /repo by harness/gen_tables.py -- do not edit. -/\nnamespace Generated"]
    L.append(f"def filterAttr : String := {_lstr(filt)}")
    L.append(f"def endpointsSwapped : Bool := {'false' if ends == [u, v] else 'true'}")
    L.append("def copied : List (String × String × Rat) := [" + ", ".join(f"({_lstr(a)}, {_lstr(b)}, {c})" for a, b, c in copied) + "]")
    for which in ("top", "sub"):
        for nm, t in zip(("R0", "R1", "C0", "C1"), out[which]):
            L.append(f"def {which}{nm} (j n : Rat) : Rat := {t}")
    L.append("end Generated")
    L.append("/-- `subnetwork` filters on `lag`, keeps the orientation and copies `cmi` (default 0) and `p_value` (default 1): the model's `subEdges` -/")
    L.append('example : Generated.filterAttr = "lag" ∧ Generated.endpointsSwapped = false ∧\n'
             '    (Generated.copied = [("cmi", "cmi", 0), ("p_value", "p_value", 1)] ∨ Generated.copied = [("p_value", "p_value", 1), ("cmi", "cmi", 0)]) := by decide')
    L.append("/-- block written for python lag `l+1` (l = 0..K-1): rows 0..n, columns l*n..(l+1)*n — `setBlock C 0 (l*n)` of an n×n block in the model -/")
    L.append("example : ∀ l n : Rat, Generated.topR0 (l + 1) n = 0 ∧ Generated.topR1 (l + 1) n = n ∧ Generated.topC0 (l + 1) n = l * n ∧ Generated.topC1 (l + 1) n = l * n + n := by\n"
             "  intro l n; refine ⟨?_, ?_, ?_, ?_⟩ <;> simp only [Generated.topR0, Generated.topR1, Generated.topC0, Generated.topC1] <;> ring1")
    L.append("/-- block written for python k+1 (k = 0..K-2): rows (k+1)n.., columns k*n.. — `setBlock C ((k+1)*n) (k*n) (identity n)` in the model -/")
    L.append("example : ∀ k n : Rat, Generated.subR0 (k + 1) n = (k + 1) * n ∧ Generated.subR1 (k + 1) n = (k + 1) * n + n ∧ Generated.subC0 (k + 1) n = k * n ∧ Generated.subC1 (k + 1) n = k * n + n := by\n"
             "  intro k n; refine ⟨?_, ?_, ?_, ?_⟩ <;> simp only [Generated.subR0, Generated.subR1, Generated.subC0, Generated.subC1] <;> ring1")
    return "\n".join(L) + "\n"


# ------------------------------------------------------------------ C13 poisson_entropy: stop rule and mask read off the source

ENT = "causationentropy/core/information/entropy.py"


def poisson_shape():
    """The while-condition (two tolerances, both reductions, both comparison directions), the update of `small` (guard and reduction)
    and the zero-probability mask of `poisson_entropy`, read off the CURRENT source. Recognised shape only; else Untranslatable."""
    fn = _funcs(_parse(ENT)).get("poisson_entropy")
    if fn is None:
        raise Untranslatable("poisson_entropy not found")
    loops = [st for st in fn.body if isinstance(st, ast.While)]
    if len(loops) != 1:
        raise Untranslatable("no single while loop")
    w = loops[0]
    t = w.test
    if not (isinstance(t, ast.BoolOp) and isinstance(t.op, ast.And) and len(t.values) == 2 and all(isinstance(v, ast.Compare) and len(v.ops) == 1 for v in t.values)):
        raise Untranslatable("loop condition is not `A and B`")

    def red(node):
        """np.max(x) / np.min(x) / x.max() -> (reduction, unparse(x))"""
        if isinstance(node, ast.Call) and len(node.args) == 1 and not node.keywords and _is_np_attr(node.func, ("max", "min", "amax", "amin")):
            return node.func.attr.replace("a", "") if node.func.attr in ("amax", "amin") else node.func.attr, ast.unparse(node.args[0])
        if isinstance(node, ast.Call) and not node.args and isinstance(node.func, ast.Attribute) and node.func.attr in ("max", "min"):
            return node.func.attr, ast.unparse(node.func.value)
        return None

    def lit_text(node):
        if isinstance(node, ast.Constant) and isinstance(node.value, float):
            return repr(node.value)
        raise Untranslatable("tolerance is not a float literal")

    out = {}
    for v in t.values:
        op = _CMP.get(type(v.ops[0]))
        left, right = v.left, v.comparators[0]
        r = red(left)
        if r is not None and op in ("gt", "ge"):
            if "mass" in out:
                raise Untranslatable("two reductions in the loop condition")
            psum_name = re.fullmatch(r"1 - (\w+)", r[1])
            if not psum_name:
                raise Untranslatable(f"first condition reduces {r[1]}")
            out["mass"] = (r[0], op, lit_text(right)); out["psum"] = psum_name.group(1)
        elif isinstance(left, ast.Name) and op in ("gt", "ge"):
            out["small"] = (left.id, op, lit_text(right))
        else:
            raise Untranslatable(f"loop condition part {ast.unparse(v)}")
    if "mass" not in out or "small" not in out:
        raise Untranslatable("loop condition parts")
    small = out["small"][0]
    prob = counter = None
    upd = None
    for st in w.body:
        s_ = ast.unparse(st)
        if isinstance(st, ast.Assign) and isinstance(st.targets[0], ast.Name) and isinstance(st.value, ast.Call) and ast.unparse(st.value.func).endswith("poisson.pmf"):
            prob = st.targets[0].id
            if len(st.value.args) != 2 or not all(isinstance(a, ast.Name) for a in st.value.args):
                raise Untranslatable("pmf call")
            counter, rates = st.value.args[0].id, st.value.args[1].id
        if isinstance(st, ast.If) and not st.orelse and len(st.body) == 1 and isinstance(st.body[0], ast.Assign) and ast.unparse(st.body[0].targets[0]) == small:
            upd = st
    if prob is None or upd is None:
        raise Untranslatable("pmf assignment / update of small not found")
    if f"{out['psum']} = {out['psum']} + {prob}" not in [ast.unparse(s2) for s2 in w.body] and f"{out['psum']} += {prob}" not in [ast.unparse(s2) for s2 in w.body]:
        raise Untranslatable("mass accumulation")
    g = upd.test
    if not (isinstance(g, ast.Compare) and len(g.ops) == 1 and isinstance(g.left, ast.Name) and g.left.id == counter and red(g.comparators[0])):
        raise Untranslatable("guard of the update of small")
    gr = red(g.comparators[0]); sr = red(upd.body[0].value)
    if sr is None or sr[1] != prob or gr[1] != rates:
        raise Untranslatable("update of small is not a reduction of the current pmf values")
    out["guard"] = (_CMP.get(type(g.ops[0])), gr[0]); out["small_red"] = sr[0]
    # mask: np.where(P > 0, P * np.log(P), 0.0)
    where = [n_ for n_ in ast.walk(fn) if isinstance(n_, ast.Call) and _is_np_attr(n_.func, ("where",)) and len(n_.args) == 3]
    if len(where) != 1:
        raise Untranslatable("mask")
    c, a, b = where[0].args
    if not (isinstance(c, ast.Compare) and len(c.ops) == 1 and isinstance(c.left, ast.Name) and isinstance(c.comparators[0], ast.Constant) and c.comparators[0].value == 0
            and ast.unparse(a) in (f"{c.left.id} * np.log({c.left.id})", f"np.log({c.left.id}) * {c.left.id}") and isinstance(b, ast.Constant) and b.value == 0):
        raise Untranslatable("mask is not np.where(P > 0, P * np.log(P), 0.0)")
    out["mask"] = _CMP.get(type(c.ops[0]))
    return out


def _is_np_attr(node, names):
    return isinstance(node, ast.Attribute) and node.attr in names and isinstance(node.value, ast.Name) and node.value.id in ("np", "numpy")


def poisson_obligation_source():
    o = poisson_shape()
    return ("import CEModel.Poisson\n/-! GENERATED from /repo by harness/gen_tables.py -- do not edit. -/\nnamespace Generated\n"
            f"def massRule : String × String × String := ({_lstr(o['mass'][0])}, {_lstr(o['mass'][1])}, {_lstr(o['mass'][2])})\n"
            f"def smallRule : String × String := ({_lstr(o['small'][1])}, {_lstr(o['small'][2])})\n"
            f"def smallUpdate : String × String × String := ({_lstr(o['guard'][0])}, {_lstr(o['guard'][1])}, {_lstr(o['small_red'])})\n"
            f"def mask : String := {_lstr(o['mask'])}\nend Generated\n"
            "/-- the model's loop (`CE.Poisson.condB`: `tol1 < maxL (1 - psum) && tol2 < small`, run by the driver with 1e-16 and 1e-75;\n"
            "`stepSt`: `small := if cast i < maxL lams then small else maxL prob`, i.e. updated iff `i >= max(lambdas)` with the LARGEST pmf value;\n"
            "`plogp`: `if 0 < p`) is the source's: strict comparisons, maxima in all three places, those two tolerances -/\n"
            'example : Generated.massRule = ("max", "gt", "1e-16") ∧ Generated.smallRule = ("gt", "1e-75") ∧\n'
            '    Generated.smallUpdate = ("ge", "max", "max") ∧ Generated.mask = "gt" := by decide\n')


# ------------------------------------------------------------------ C11 KSG formulas of the two kNN estimators regenerated as Lean terms

def _knn_formula(fn, blocks):
    """symbolic evaluation of a kNN estimator body (for the CMI function: the `else` branch of `if Z is None`).
    `blocks`: the per-sample neighbour-count blocks in the order of the tuple components of `c`.
    Returns the Lean term of the returned value in ψ, k, N and the per-sample counts `c`."""
    comp = {1: ["c.1"], 2: ["c.1", "c.2"], 3: ["c.1", "c.2.1", "c.2.2"]}[len(blocks)]
    env = {}          # name -> ("joint",) | ("eps",) | ("dist", blockkey) | ("cnt", component) | ("N",) | ("scal", term) | ("elem", term)

    def stack_key(node):
        """np.column_stack((A, B, ..)) or a bare parameter name -> tuple of parameter names"""
        if isinstance(node, ast.Name) and node.id in ("X", "Y", "Z"):
            return (node.id,)
        if isinstance(node, ast.Name) and node.id in env and env[node.id][0] == "stack":
            return env[node.id][1]
        if (isinstance(node, ast.Call) and ast.unparse(node.func) in ("np.column_stack", "np.hstack") and len(node.args) == 1
                and isinstance(node.args[0], (ast.Tuple, ast.List)) and all(isinstance(e, ast.Name) and e.id in ("X", "Y", "Z") for e in node.args[0].elts)):
            return tuple(e.id for e in node.args[0].elts)
        return None

    def is_cdist(node, allow_p=False):
        if not (isinstance(node, ast.Call) and ast.unparse(node.func) == "cdist" and len(node.args) == 2):
            return None
        kws = {k.arg: ast.unparse(k.value) for k in node.keywords}
        if kws.get("metric") != "metric" or (set(kws) - {"metric"} and not (allow_p and set(kws) == {"metric", "p"})):
            return None
        a, b = stack_key(node.args[0]), stack_key(node.args[1])
        return a if a is not None and a == b else None

    def ev(node):
        if isinstance(node, ast.Name):
            if node.id == "k":
                return ("nat", "k")
            if node.id in env:
                return env[node.id]
            raise Untranslatable(f"unknown name {node.id}")
        if isinstance(node, ast.Constant) and isinstance(node.value, int) and not isinstance(node.value, bool):
            return ("natlit", str(node.value))
        if isinstance(node, ast.UnaryOp) and isinstance(node.op, ast.USub):
            k_, t = ev(node.operand)
            if k_ not in ("scal", "elem"):
                raise Untranslatable("negation")
            return (k_, f"(-{t})")
        if isinstance(node, ast.BinOp) and isinstance(node.op, (ast.Add, ast.Sub)):
            (ka, a), (kb, b) = ev(node.left), ev(node.right)
            if ka == "cnt" and kb == "natlit" and isinstance(node.op, ast.Add):
                return ("cntnat", f"({a} + {b})")
            if ka in ("scal", "elem") and kb in ("scal", "elem"):
                return ("elem" if "elem" in (ka, kb) else "scal", f"({a} {'+' if isinstance(node.op, ast.Add) else '-'} {b})")
            raise Untranslatable(f"arithmetic {ast.unparse(node)[:50]}")
        if isinstance(node, ast.Call) and ast.unparse(node.func) in ("digamma", "scipy.special.digamma", "special.digamma") and len(node.args) == 1 and not node.keywords:
            k_, t = ev(node.args[0])
            if k_ == "nat":
                return ("scal", f"ψ {t}")
            if k_ == "N":
                return ("scal", "ψ N")
            if k_ == "cntnat":
                return ("elem", f"ψ {t}")
            raise Untranslatable(f"digamma of {ast.unparse(node.args[0])}")
        if isinstance(node, ast.Call) and ast.unparse(node.func) == "np.mean" and len(node.args) == 1 and not node.keywords:
            k_, t = ev(node.args[0])
            if k_ != "elem":
                raise Untranslatable("np.mean of a non-array")
            return ("scal", f"CE.Knn.mean (cs.map (fun c => {t}))")
        raise Untranslatable(f"expression {ast.unparse(node)[:60]}")

    for st in fn:
        if isinstance(st, ast.Expr) and isinstance(st.value, ast.Constant):
            continue
        if isinstance(st, ast.Return):
            k_, t = ev(st.value)
            if k_ != "scal":
                raise Untranslatable("returned value")
            return t
        if isinstance(st, ast.If) and ast.unparse(st.test) == "metric == 'minkowski'" and len(st.body) == 1 and len(st.orelse) == 1:
            # the radius under the (undocumented) minkowski default and under the named metrics: both branches must be the same construction
            a, b = st.body[0], st.orelse[0]
            if not (isinstance(a, ast.Assign) and isinstance(b, ast.Assign) and ast.unparse(a.targets[0]) == ast.unparse(b.targets[0])):
                raise Untranslatable("metric branch")
            sts = [b]
        else:
            sts = [st]
        for st2 in sts:
            if not (isinstance(st2, ast.Assign) and len(st2.targets) == 1 and isinstance(st2.targets[0], ast.Name)):
                raise Untranslatable(f"statement {ast.unparse(st2)[:60]}")
            tgt, val = st2.targets[0].id, st2.value
            sk = stack_key(val)
            if sk is not None and not isinstance(val, ast.Name):
                env[tgt] = ("stack", sk); continue
            if ast.unparse(val) in ("X.shape[0]", "len(X)", "JS.shape[0]"):
                env[tgt] = ("N", "N"); continue
            # radius: np.sort(cdist(JS, JS, metric=metric), axis=1)[:, k]
            if (isinstance(val, ast.Subscript) and ast.unparse(val.slice) == "(slice(None, None, None), k)" or (isinstance(val, ast.Subscript) and ast.unparse(val).endswith("[:, k]"))):
                inner = val.value
                if (isinstance(inner, ast.Call) and ast.unparse(inner.func) == "np.sort" and len(inner.args) == 1 and {k.arg: ast.unparse(k.value) for k in inner.keywords} == {"axis": "1"}
                        and is_cdist(inner.args[0], allow_p=True) == tuple(b_ for blk in [("X", "Y", "Z")[:2] + (("Z",) if len(blocks) == 3 else ())] for b_ in blk)):
                    env[tgt] = ("eps", "eps"); continue
                raise Untranslatable("radius is not np.sort(cdist(JOINT, JOINT, metric=metric), axis=1)[:, k]")
            cd = is_cdist(val)
            if cd is not None:
                env[tgt] = ("dist", cd); continue
            if isinstance(val, ast.Name) and val.id in env:
                env[tgt] = env[val.id]; continue
            # count: np.sum(D < eps[:, None], axis=1) - 1
            if (isinstance(val, ast.BinOp) and isinstance(val.op, ast.Sub) and isinstance(val.right, ast.Constant) and val.right.value == 1
                    and isinstance(val.left, ast.Call) and ast.unparse(val.left.func) == "np.sum" and len(val.left.args) == 1
                    and {k.arg: ast.unparse(k.value) for k in val.left.keywords} == {"axis": "1"}):
                c = val.left.args[0]
                if (isinstance(c, ast.Compare) and len(c.ops) == 1 and isinstance(c.ops[0], ast.Lt) and isinstance(c.left, ast.Name) and env.get(c.left.id, (None,))[0] == "dist"
                        and isinstance(c.comparators[0], ast.Subscript) and isinstance(c.comparators[0].value, ast.Name) and env.get(c.comparators[0].value.id, (None,))[0] == "eps"
                        and ast.unparse(c.comparators[0]).endswith("[:, None]")):
                    blk = env[c.left.id][1]
                    if blk not in blocks:
                        raise Untranslatable(f"count over block {blk}")
                    env[tgt] = ("cnt", comp[blocks.index(blk)]); continue
                raise Untranslatable("count is not np.sum(D_block < eps[:, None], axis=1) - 1")
            env[tgt] = ev(val)
    raise Untranslatable("no return")


def knn_obligation_source():
    """Both KSG estimators: radius construction, strict counts minus one and the digamma formula are read off the CURRENT source; the
    formulas become Lean terms in an ARBITRARY ψ and must equal the model's `knnMIψ` / `knnCMIψ` for all ψ, metrics, k and samples."""
    mi = _funcs(_parse(MI)).get("knn_mutual_information")
    cmi = _funcs(_parse(CMI)).get("knn_conditional_mutual_information")
    if mi is None or cmi is None:
        raise Untranslatable("kNN estimators not found")
    for f_, want in ((mi, ["X", "Y", "metric", "k"]), (cmi, ["X", "Y", "Z", "metric", "k"])):
        if [a.arg for a in f_.args.args] != want:
            raise Untranslatable(f"signature {[a.arg for a in f_.args.args]}")
    t_mi = _knn_formula(mi.body, [("X",), ("Y",)])
    body = [st for st in cmi.body if not (isinstance(st, ast.Expr) and isinstance(st.value, ast.Constant))]
    if not (len(body) == 1 and isinstance(body[0], ast.If) and ast.unparse(body[0].test) == "Z is None" and len(body[0].body) == 1 and isinstance(body[0].body[0], ast.Return)
            and ast.unparse(body[0].body[0].value) in ("knn_mutual_information(X, Y, metric=metric, k=k)", "knn_mutual_information(X, Y, metric, k)")):
        raise Untranslatable("conditional estimator is not `if Z is None: return knn_mutual_information(X, Y, metric=metric, k=k) else: ...`")
    t_cmi = _knn_formula(body[0].orelse, [("X", "Z"), ("Y", "Z"), ("Z",)])
    return ("import CEModel.Knn\nimport Mathlib.Tactic.Ring\nimport Mathlib.Algebra.Order.Field.Rat\n/-! GENERATED from /repo by harness/gen_tables.py -- do not edit. -/\n"
            f"def Generated.knnMI (ψ : Nat → Rat) (k N : Nat) (cs : List (Nat × Nat)) : Rat :=\n  {t_mi}\n"
            f"def Generated.knnCMI (ψ : Nat → Rat) (k : Nat) (cs : List (Nat × Nat × Nat)) : Rat :=\n  {t_cmi}\n"
            "open CE.Knn in\n"
            "example : ∀ (ψ : Nat → Rat) (m : Metric) (k : Nat) (X Y : Sample), knnMIψ ψ m k X Y = Generated.knnMI ψ k X.length\n"
            "    ((List.zipWith (fun (x : Pt) (y : Pt) => (x, y)) X Y).map (fun xy =>\n"
            "      (countIn m X xy.1 (radius m k (hcat X Y) (xy.1 ++ xy.2)), countIn m Y xy.2 (radius m k (hcat X Y) (xy.1 ++ xy.2))))) := by\n"
            "  intro ψ m k X Y\n  first\n    | rfl\n    | (simp only [knnMIψ, Generated.knnMI, List.map_map, Function.comp_def]; done)\n    | (simp only [knnMIψ, Generated.knnMI, List.map_map, Function.comp_def]; first | rfl | ring1)\n"
            "open CE.Knn in\n"
            "example : ∀ (ψ : Nat → Rat) (m : Metric) (k : Nat) (X Y Z : Sample), knnCMIψ ψ m k X Y Z = Generated.knnCMI ψ k\n"
            "    ((zip3 X Y Z).map (fun t =>\n"
            "      (countIn m (hcat X Z) (t.1 ++ t.2.2) (radius m k (hcat (hcat X Y) Z) (t.1 ++ t.2.1 ++ t.2.2)),\n"
            "       countIn m (hcat Y Z) (t.2.1 ++ t.2.2) (radius m k (hcat (hcat X Y) Z) (t.1 ++ t.2.1 ++ t.2.2)),\n"
            "       countIn m Z t.2.2 (radius m k (hcat (hcat X Y) Z) (t.1 ++ t.2.1 ++ t.2.2))))) := by\n"
            "  intro ψ m k X Y Z\n  first\n    | rfl\n    | (simp only [knnCMIψ, Generated.knnCMI, List.map_map, Function.comp_def]; done)\n    | (simp only [knnCMIψ, Generated.knnCMI, List.map_map, Function.comp_def]; first | rfl | ring1)\n")


# ------------------------------------------------------------------ C01 lagged design: slice arithmetic and labelling read off the source

def lagged_obligation_source():
    """The construction of the lagged predictor matrix in `discover_network`: loop nest (variable outer, lag inner, lag from 1 to
    max_lag), the slice `series[lo:hi, j]` of each column, the label appended with it, the target slice, and the same for the
    own-history block of the standard variant -- read off the CURRENT source. The slice bounds become Lean terms over Rat and must
    say, for ALL max_lag, tau, T and rows r: row r of the column is the series at time (max_lag + r) - tau, target row r is time
    max_lag + r, both have T - max_lag rows (the model's `lagged_entry`)."""
    from pyexpr import Sym, Untranslatable as U
    fn = _funcs(_parse(DISC)).get("discover_network")
    if fn is None:
        raise Untranslatable("discover_network not found")

    def slice_terms(sub, series, colvar, env):
        """series[lo:hi, colvar] -> (lo, hi) Lean terms"""
        if not (isinstance(sub, ast.Subscript) and isinstance(sub.value, ast.Name) and sub.value.id == series and isinstance(sub.slice, ast.Tuple) and len(sub.slice.elts) == 2):
            raise Untranslatable(f"column expression {ast.unparse(sub)[:50]}")
        sl, col = sub.slice.elts
        if not (isinstance(sl, ast.Slice) and sl.step is None and sl.lower is not None and sl.upper is not None and isinstance(col, ast.Name) and col.id == colvar):
            raise Untranslatable(f"column slice {ast.unparse(sub)[:50]}")
        sym = Sym(env)
        try:
            return sym.ev(sl.lower)[1], sym.ev(sl.upper)[1]
        except U as e:
            raise Untranslatable(str(e))

    outer = [st for st in fn.body if isinstance(st, ast.For) and len(st.body) == 1 and isinstance(st.body[0], ast.For)]
    if len(outer) != 1:
        raise Untranslatable("nested construction loop not found")
    lo_, li_ = outer[0], outer[0].body[0]
    if ast.unparse(lo_.iter) != "range(n)" or ast.unparse(li_.iter) != "range(1, max_lag + 1)" or not (isinstance(lo_.target, ast.Name) and isinstance(li_.target, ast.Name)):
        raise Untranslatable("loop ranges of the lagged design")
    j, tau = lo_.target.id, li_.target.id
    env = {"max_lag": ("scal", "L"), tau: ("scal", "τ"), "T": ("scal", "T")}
    assigns = {st.targets[0].id: st.value for st in li_.body if isinstance(st, ast.Assign) and isinstance(st.targets[0], ast.Name)}
    appends = [st.value for st in li_.body if isinstance(st, ast.Expr) and isinstance(st.value, ast.Call) and isinstance(st.value.func, ast.Attribute) and st.value.func.attr == "append"]
    if len(appends) != 2:
        raise Untranslatable("two appends expected in the construction loop")
    colexpr = lab = None
    for a in appends:
        arg = a.args[0]
        arg = assigns.get(arg.id, arg) if isinstance(arg, ast.Name) else arg
        if isinstance(arg, ast.Tuple):
            lab = [ast.unparse(e) for e in arg.elts]
        else:
            colexpr = arg
    if colexpr is None or lab is None:
        raise Untranslatable("column / label appends")
    lo, hi = slice_terms(colexpr, "series", j, env)
    ya = [st for st in fn.body if isinstance(st, ast.Assign) and ast.unparse(st.targets[0]) == "Y_all"]
    if len(ya) != 1 or not (isinstance(ya[0].value, ast.Subscript) and ast.unparse(ya[0].value.value) == "series" and isinstance(ya[0].value.slice, ast.Tuple)
                            and isinstance(ya[0].value.slice.elts[0], ast.Slice) and ya[0].value.slice.elts[0].upper is None and ya[0].value.slice.elts[0].step is None
                            and ast.unparse(ya[0].value.slice.elts[1]) == ":"):
        raise Untranslatable("target matrix is not series[<lo>:, :]")
    try:
        ylo = Sym(env).ev(ya[0].value.slice.elts[0].lower)[1]
    except U as e:
        raise Untranslatable(str(e))
    # own-history block of the standard variant: for tau in range(1, max_lag + 1): Z_init.append(series[lo:hi, i])
    zl = [n_ for n_ in ast.walk(fn) if isinstance(n_, ast.For) and n_ is not li_ and ast.unparse(n_.iter) == "range(1, max_lag + 1)" and len(n_.body) == 1
          and isinstance(n_.body[0], ast.Expr) and isinstance(n_.body[0].value, ast.Call) and ast.unparse(n_.body[0].value.func) == "Z_init.append"]
    if len(zl) != 1:
        raise Untranslatable("own-history loop of the standard variant")
    tgt_loops = [st for st in fn.body if isinstance(st, ast.For) and st is not lo_ and isinstance(st.target, ast.Name) and ast.unparse(st.iter) == "range(n)"]
    if len(tgt_loops) != 1:
        raise Untranslatable("target loop")
    zlo, zhi = slice_terms(zl[0].body[0].value.args[0], "series", tgt_loops[0].target.id, {**env, zl[0].target.id: ("scal", "τ")})
    return ("import CEModel.Discovery\nimport Mathlib.Tactic.Ring\n/-! GENERATED from /repo by harness/gen_tables.py -- do not edit. -/\nnamespace Generated\n"
            f"def colLo (L τ T : Rat) : Rat := {lo}\ndef colHi (L τ T : Rat) : Rat := {hi}\ndef tgtLo (L : Rat) : Rat := {ylo}\n"
            f"def ownLo (L τ T : Rat) : Rat := {zlo}\ndef ownHi (L τ T : Rat) : Rat := {zhi}\n"
            f"def labelOrder : List String := {_llist(lab)}\ndef loopOrder : List String := {_llist([j, tau])}\nend Generated\n"
            "/-- row r of a lagged column is the series at time (target time of row r) - tau; columns and targets have the same T - max_lag rows -/\n"
            "example : ∀ L τ T r : Rat, Generated.colLo L τ T + r = (Generated.tgtLo L + r) - τ ∧ Generated.colHi L τ T - Generated.colLo L τ T = T - Generated.tgtLo L\n"
            "    ∧ Generated.ownLo L τ T + r = (Generated.tgtLo L + r) - τ ∧ Generated.ownHi L τ T - Generated.ownLo L τ T = T - Generated.tgtLo L ∧ Generated.tgtLo L = L := by\n"
            "  intro L τ T r; refine ⟨?_, ?_, ?_, ?_, ?_⟩ <;> simp only [Generated.colLo, Generated.colHi, Generated.tgtLo, Generated.ownLo, Generated.ownHi] <;> ring1\n"
            "/-- variable outer, lag inner (ascending from 1): column id = j * max_lag + (tau - 1), the model's `colId`; the label appended is (variable, lag) -/\n"
            "example : Generated.labelOrder = Generated.loopOrder := by decide\n")
