"""Seeded-change tooling (never touches /repo's working tree: everything happens in scratch worktrees under /tmp).

  seeded.py import <Cxx> <k>      validate /tmp/seed/<Cxx>/mutant_<k>.diff + demo_<k>.py and store them as seeded/<Cxx>-m<k>/
  seeded.py run [<id> ...]        apply each stored change to a scratch worktree and run the property's quick check on it
"""
import json
import os
import shutil
import subprocess
import sys
from pathlib import Path

VERIF = Path(__file__).resolve().parent.parent
SEEDED = VERIF / "seeded"
PY = "/venv/bin/python"


def sh(cmd, cwd=None, env=None, timeout=3600):
    p = subprocess.run(cmd, shell=True, cwd=cwd, env=env, capture_output=True, text=True, timeout=timeout)
    return p.returncode, (p.stdout + p.stderr)


import contextlib
import fcntl


@contextlib.contextmanager
def locked(path):
    """serialise read-modify-write of a results file between concurrent runs"""
    with open(str(path) + ".lock", "w") as fh:
        fcntl.flock(fh, fcntl.LOCK_EX)
        try:
            yield
        finally:
            fcntl.flock(fh, fcntl.LOCK_UN)


def scratch(name):
    d = Path("/tmp/mutwt") / name
    if d.exists():
        sh(f"git -C /repo worktree remove --force {d}")
        shutil.rmtree(d, ignore_errors=True)
    d.parent.mkdir(parents=True, exist_ok=True)
    rc, out = sh(f"git -C /repo worktree add -q --detach {d} HEAD")
    if rc:
        raise SystemExit(out)
    return d


def drop(d):
    sh(f"git -C /repo worktree remove --force {d}")
    shutil.rmtree(d, ignore_errors=True)


def do_import(prop, k):
    src = Path(os.environ.get("SEED_SRC", "/tmp/seed")) / prop
    patch, demo = src / f"mutant_{k}.diff", src / f"demo_{k}.py"
    if not patch.exists() or not demo.exists():
        raise SystemExit(f"missing {patch} or {demo}")
    wt = scratch(f"imp-{prop}-{k}")
    try:
        env = dict(os.environ, MPLBACKEND="Agg")
        shutil.copy(demo, wt / demo.name)
        rc0, out0 = sh(f"{PY} {demo.name}", cwd=wt, env=env, timeout=1800)
        rc, out = sh(f"git apply {patch}", cwd=wt)
        if rc:
            print("PATCH DOES NOT APPLY:", out); return False
        rc1, out1 = sh(f"{PY} {demo.name}", cwd=wt, env=env, timeout=1800)
        rct, outt = sh(f"{PY} -m pytest -q -p no:cacheprovider --timeout=900 2>&1 | tail -3", cwd=wt, env=env, timeout=3600)
        suite_ok = "381 passed" in outt and "failed" not in outt
        ok = rc0 == 0 and rc1 != 0 and suite_ok
        print(f"{prop} m{k}: demo without={rc0} with={rc1} suite={'ok' if suite_ok else outt.strip()[-120:]} -> {'KEEP' if ok else 'REJECT'}")
        if not ok:
            return False
        dst = SEEDED / f"{prop}-{os.environ.get('SEED_TAG', 'm')}{k}"
        dst.mkdir(parents=True, exist_ok=True)
        shutil.copy(patch, dst / "patch.diff")
        shutil.copy(demo, dst / "demo.py")
        notes = (src / "notes.md").read_text() if (src / "notes.md").exists() else ""
        meta = {"property": prop, "origin": f"fresh sub-agent given only the property text (worktree {src})",
                "needs_to_manifest": "see notes", "notes": notes,
                "confirmed": {"demo_exit_without_change": rc0, "demo_exit_with_change": rc1, "test_suite_with_change": outt.strip().splitlines()[-1] if outt.strip() else "",
                              "commands": [f"git apply patch.diff (scratch worktree of /repo HEAD)", f"{PY} demo.py", f"{PY} -m pytest -q -p no:cacheprovider --timeout=900"]}}
        (dst / "meta.json").write_text(json.dumps(meta, indent=1) + "\n")
        return True
    finally:
        drop(wt)


def do_run(ids, tier="quick", all_checks=False):
    results = {}
    for sid in ids:
        d = SEEDED / sid
        meta = json.loads((d / "meta.json").read_text())
        wt = scratch(f"run-{sid}")
        try:
            rc, out = sh(f"git apply {d / 'patch.diff'}", cwd=wt)
            if rc:
                results[sid] = {"error": "patch does not apply: " + out[-200:]}; continue
            props = [meta["property"]] + (meta.get("also_check", []) if not all_checks else [])
            if all_checks:
                man = json.loads((VERIF / "MANIFEST.json").read_text())
                props = [c["property_id"] for c in man["checks"]]
            res = {}
            for p in props:
                env = dict(os.environ, CE_REPO=str(wt), CE_EVIDENCE_DIR=f"/tmp/mutwt/ev-{sid}")
                rc, out = sh(f"./check {p} {tier}", cwd=VERIF, env=env, timeout=7200)
                line = next((l for l in out.splitlines() if l.startswith("VIOLATION")), "")
                res[p] = {"rc": rc, "violation": line}
            results[sid] = res
            print(sid, json.dumps(res))
            # keep the last observed outcome next to the seeded change
            resfile = Path(os.environ.get("SEEDED_RESULTS", SEEDED / "results.json"))     # (runs under other seeds log elsewhere)
            with locked(resfile):
                allres = json.loads(resfile.read_text()) if resfile.exists() else {}
                allres.setdefault(sid, {}).update({p: ("caught: " + r["violation"].split(" replay=")[0] + (" (no-failing-input-found)" if "no-failing-input" in r["violation"] else "")) if r["rc"] == 1 else ("exit 2" if r["rc"] == 2 else "not caught") for p, r in res.items()})
                resfile.write_text(json.dumps(allres, indent=1, sort_keys=True) + "\n")
        finally:
            drop(wt)
    return results


HARMLESS = VERIF / "seeded-harmless"
_DISC = ["C01", "C02", "C03", "C04", "C05", "C06", "C07"]
_EST = ["C01", "C03", "C04", "C05", "C06", "C07", "C08", "C09", "C10", "C11", "C12", "C13"]
RELEVANT = {"core/discovery.py": _DISC, "information/conditional_mutual_information.py": _EST, "information/mutual_information.py": _EST,
            "information/entropy.py": _EST, "core/linalg.py": ["C08", "C10", "C16", "C01", "C06"], "core/stats.py": ["C17"], "graph/utils.py": ["C14", "C15"],
            "datasets/synthetic.py": ["C18", "C19", "C05"], "core/plotting.py": ["C20"]}


def import_harmless(srcdir, k, sid):
    """validate a behaviour-preserving rewrite (suite passes) and store it as seeded-harmless/<sid>/"""
    src = Path(srcdir)
    patch = src / f"refactor_{k}.diff"
    if not patch.exists():
        raise SystemExit(f"missing {patch}")
    wt = scratch(f"imph-{sid}")
    try:
        rc, out = sh(f"git apply {patch}", cwd=wt)
        if rc:
            print("PATCH DOES NOT APPLY:", out); return False
        rct, outt = sh(f"{PY} -m pytest -q -p no:cacheprovider --timeout=900 2>&1 | tail -3", cwd=wt, env=dict(os.environ, MPLBACKEND="Agg"), timeout=3600)
        ok = "381 passed" in outt and "failed" not in outt
        print(f"{sid}: suite={'ok' if ok else outt.strip()[-120:]} -> {'KEEP' if ok else 'REJECT'}")
        if not ok:
            return False
        dst = HARMLESS / sid
        dst.mkdir(parents=True, exist_ok=True)
        shutil.copy(patch, dst / "patch.diff")
        notes = (src / "notes.md").read_text() if (src / "notes.md").exists() else ""
        (dst / "meta.json").write_text(json.dumps({"kind": "behaviour-preserving rewrite (no property is broken): every check must stay silent",
                                                   "origin": f"fresh sub-agent ({srcdir})", "notes": notes,
                                                   "confirmed": {"test_suite_with_change": outt.strip().splitlines()[-1] if outt.strip() else ""}}, indent=1) + "\n")
        return True
    finally:
        drop(wt)


def run_harmless(ids, tier="quick"):
    man = json.loads((VERIF / "MANIFEST.json").read_text())
    props = [c["property_id"] for c in man["checks"]]
    allres = json.loads((HARMLESS / "results.json").read_text()) if (HARMLESS / "results.json").exists() else {}
    for sid in ids:
        d = HARMLESS / sid
        wt = scratch(f"runh-{sid}")
        try:
            rc, out = sh(f"git apply {d / 'patch.diff'}", cwd=wt)
            if rc:
                print(sid, "patch does not apply"); continue
            touched = set(l.split()[-1] for l in (d / "patch.diff").read_text().splitlines() if l.startswith("+++ "))
            alarms = {}
            run_props = props
            if os.environ.get("HARMLESS_RELEVANT"):
                # only the checks that execute the rewritten code (a rewrite of graph/utils.py cannot be seen by the Poisson-entropy check)
                rel = set()
                for t in touched:
                    for frag, ps in RELEVANT.items():
                        if frag in t:
                            rel |= set(ps)
                run_props = [p for p in props if p in rel] or props
            for p in run_props:
                env = dict(os.environ, CE_REPO=str(wt), CE_EVIDENCE_DIR=f"/tmp/mutwt/evh-{sid}")
                rc, out = sh(f"./check {p} {tier}", cwd=VERIF, env=env, timeout=7200)
                if rc != 0:
                    alarms[p] = next((l for l in out.splitlines() if l.startswith("VIOLATION") or "INFRA" in l), f"rc={rc}")
            with locked(HARMLESS / "results.json"):
                allres = json.loads((HARMLESS / "results.json").read_text()) if (HARMLESS / "results.json").exists() else {}
                allres[sid] = alarms or ("silent (all checks exit 0)" if run_props == props else "silent (checks that execute the rewritten code: " + " ".join(run_props) + ")")
                print(sid, json.dumps(allres[sid]))
                (HARMLESS / "results.json").write_text(json.dumps(allres, indent=1, sort_keys=True) + "\n")
        finally:
            drop(wt)


if __name__ == "__main__":
    if sys.argv[1] == "import":
        do_import(sys.argv[2], sys.argv[3])
    elif sys.argv[1] == "run":
        ids = sys.argv[2:] or sorted(p.name for p in SEEDED.iterdir() if p.is_dir())
        do_run(ids, tier=os.environ.get("SEEDED_TIER", "quick"))
    elif sys.argv[1] == "import-harmless":
        import_harmless(sys.argv[2], sys.argv[3], sys.argv[4])
    elif sys.argv[1] == "run-harmless":
        run_harmless(sys.argv[2:] or sorted(p.name for p in HARMLESS.iterdir() if p.is_dir()))
    elif sys.argv[1] == "runall":
        ids = sys.argv[2:] or sorted(p.name for p in SEEDED.iterdir() if p.is_dir())
        do_run(ids, all_checks=True)
