"""Independent evaluation of the published geometric k-NN entropy formula (Lord, Sun, Bollt 2018) used by C12:
H = log N + log(unit-ball volume) + d * mean log(rho_k) + mean local ellipsoid correction.
Brute-force neighbours; the local singular structure comes from a one-sided Jacobi SVD written here (high relative accuracy,
no LAPACK), NOT from the SVD routine the implementation calls."""
import math

import numpy as np
from scipy.special import gammaln


def jacobi_svd(A, sweeps=60):
    """one-sided (Hestenes) Jacobi SVD: singular values (descending) and right singular vectors of A (m x d), computed to high
    RELATIVE accuracy without LAPACK -- the independent counterpart of the np.linalg.svd call in the implementation"""
    U = np.array(A, dtype=float, copy=True)
    d = U.shape[1]
    V = np.eye(d)
    for _ in range(sweeps):
        off = 0.0
        for p in range(d - 1):
            for q in range(p + 1, d):
                a, b, c = U[:, p] @ U[:, p], U[:, q] @ U[:, q], U[:, p] @ U[:, q]
                if abs(c) <= 1e-300 or abs(c) <= 1e-17 * math.sqrt(a * b):
                    continue
                off = max(off, abs(c) / math.sqrt(a * b))
                zeta = (b - a) / (2.0 * c)
                t = math.copysign(1.0, zeta) / (abs(zeta) + math.sqrt(1.0 + zeta * zeta))
                cs = 1.0 / math.sqrt(1.0 + t * t); sn = cs * t
                up, uq = U[:, p].copy(), U[:, q].copy()
                U[:, p], U[:, q] = cs * up - sn * uq, sn * up + cs * uq
                vp, vq = V[:, p].copy(), V[:, q].copy()
                V[:, p], V[:, q] = cs * vp - sn * vq, sn * vp + cs * vq
        if off < 1e-15:
            break
    sv = np.sqrt((U * U).sum(axis=0))
    order = np.argsort(-sv)
    return sv[order], V[:, order]


def _dist(X, i, metric):
    D = X - X[i]
    if metric == "cityblock":
        return np.abs(D).sum(axis=1)
    if metric == "chebyshev":
        return np.abs(D).max(axis=1)
    return np.sqrt((D ** 2).sum(axis=1))


def ref_entropy(X, k, metric="euclidean", detail=False):
    N, d = X.shape
    H = math.log(N) + (d / 2) * math.log(math.pi) - gammaln(1 + d / 2)
    logs, corrs, margins, gaps = [], [], [], []
    smallest = math.inf          # smallest quantity the implementation compares with its ABSOLUTE 1e-12 guards (k-th neighbour distance, spanned singular values)
    for i in range(N):
        dist = _dist(X, i, metric)
        order = sorted((j for j in range(N) if j != i), key=lambda j: (dist[j], j))
        nb = order[:k]
        if k < len(order):
            gaps.append(abs(dist[order[k]] - dist[order[k - 1]]) / max(dist[order[k]], 1e-300))
        rho = math.sqrt(float(((X[i] - X[nb[-1]]) ** 2).sum()))
        logs.append(math.log(rho) if rho > 1e-12 else -12.0)
        smallest = min(smallest, rho)
        pts = X[[i] + nb] - X[i]          # differences first (exact for nearby points): the centred neighbourhood does not depend on where the sample sits
        Yc = pts - pts.mean(axis=0)
        svals, V = jacobi_svd(Yc)
        r = min(k + 1, d)
        lam = svals[:r] ** 2
        valid = svals[:r] > 1e-9 * max(svals[0], 1e-300)  # directions actually spanned by the neighbourhood (k+1 centred points have rank <= k)
        if valid.any():
            smallest = min(smallest, float(svals[:r][valid].min()))
        cnt = 0
        for z in X[nb] - X[i]:
            proj = (z @ V[:, :r])[valid]
            s = float(np.sum(proj ** 2 / lam[valid]))
            margins.append(abs(s - 1))
            cnt += 1 if s <= 1 else 0
        corr = -math.log(max(1, cnt))
        sv = svals[:r]
        if sv[0] > 1e-12:
            for l in range(min(d, r)):
                if valid[l] and sv[l] > 1e-12 * sv[0]:      # (the implementation's rank test, relative to the largest singular value)
                    ratio = sv[l] / sv[0]
                    corr += math.log(ratio) if ratio > 1e-12 else -12.0
        corrs.append(corr)
    H += d / N * sum(logs) + float(np.mean(corrs))
    if detail == 2:
        return H, (min(margins) if margins else 1.0), (min(gaps) if gaps else 1.0), smallest
    if detail:
        return H, (min(margins) if margins else 1.0), (min(gaps) if gaps else 1.0)
    return H
