"""Independent evaluation of the published geometric k-NN entropy formula (Lord, Sun, Bollt 2018) used by C12:
H = log N + log(unit-ball volume) + d * mean log(rho_k) + mean local ellipsoid correction.
Brute-force neighbours; the local singular structure comes from an eigen-decomposition of the scatter matrix
(np.linalg.eigh), NOT from the SVD routine the implementation calls."""
import math

import numpy as np
from scipy.special import gammaln


def _dist(X, i, metric):
    D = X - X[i]
    if metric == "cityblock":
        return np.abs(D).sum(axis=1)
    if metric == "chebyshev":
        return np.abs(D).max(axis=1)
    return np.sqrt((D ** 2).sum(axis=1))


def ref_entropy(X, k, metric="euclidean", detail=False):
    N, d = X.shape
    H = math.log(N) + (d / 2) * math.log(math.pi) - gammaln(1 + d / 2)
    logs, corrs, margins, gaps = [], [], [], []
    for i in range(N):
        dist = _dist(X, i, metric)
        order = sorted((j for j in range(N) if j != i), key=lambda j: (dist[j], j))
        nb = order[:k]
        if k < len(order):
            gaps.append(abs(dist[order[k]] - dist[order[k - 1]]) / max(dist[order[k]], 1e-300))
        rho = math.sqrt(float(((X[i] - X[nb[-1]]) ** 2).sum()))
        logs.append(math.log(rho) if rho > 1e-12 else -12.0)
        pts = X[[i] + nb]
        Yc = pts - pts.mean(axis=0)
        S2, V = np.linalg.eigh(Yc.T @ Yc)
        S2, V = S2[::-1], V[:, ::-1]
        r = min(k + 1, d)
        lam = np.clip(S2[:r], 0, None)
        valid = lam > 1e-13 * max(lam[0], 1e-300)       # directions actually spanned by the neighbourhood
        cnt = 0
        for z in X[nb] - X[i]:
            proj = (z @ V[:, :r])[valid]
            s = float(np.sum(proj ** 2 / lam[valid]))
            margins.append(abs(s - 1))
            cnt += 1 if s <= 1 else 0
        corr = -math.log(max(1, cnt))
        sv = np.sqrt(lam)
        if sv[0] > 1e-12:
            for l in range(min(d, r)):
                if valid[l] and sv[l] > 1e-12:
                    ratio = sv[l] / sv[0]
                    corr += math.log(ratio) if ratio > 1e-12 else -12.0
        corrs.append(corr)
    H += d / N * sum(logs) + float(np.mean(corrs))
    if detail:
        return H, (min(margins) if margins else 1.0), (min(gaps) if gaps else 1.0)
    return H
