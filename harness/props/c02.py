"""C02 -- edge selection follows the oCSE forward/backward rule on every landscape."""
import itertools
import math
import os
from fractions import Fraction

import numpy as np

from common import num, quiet, unval
from props import disc_common as DC

AF, AB = 0.0625, 0.25  # distinct dyadic levels: the level identifies the phase of a recorded test


class Chooser:
    def __init__(self, prefix, rng=None):
        self.prefix, self.i, self.trace, self.rng = list(prefix), 0, [], rng

    def choose(self, n):
        if self.i < len(self.prefix):
            c = self.prefix[self.i]
        elif self.rng is not None:
            c = int(self.rng.integers(0, n))
        else:
            c = 0
        self.i += 1
        self.trace.append((c, n))
        return c


class World:
    """Scripted oracles for one run: landscape on demand, verdicts, visiting order."""

    def __init__(self, ncand, zinit_ids, chooser, nan_mode=False, weak=True, value_pool=None):
        self.n, self.zinit, self.ch = ncand, list(zinit_ids), chooser
        self.ftab = {}          # (cand, tuple(Z)) -> value
        self.levels = {}        # tuple(Z) -> sorted distinct finite levels used in that round
        self.slots = []         # test verdicts / order draws, in the order the generator/test is consulted
        self.events = []        # (level, cand, cond, obs, pass, p)
        self.nan_mode, self.weak, self.pool = nan_mode, weak, value_pool

    # one-hot coding: column id c is the unit vector e_c
    def col(self, c, N):
        v = np.zeros(N)
        v[c] = 1.0
        return v

    def decode(self, A):
        return [int(np.argmax(A[:, c])) for c in range(A.shape[1])]

    def f(self, cand, Z):
        key = (cand, tuple(Z))
        if key in self.ftab:
            return self.ftab[key]
        lv = self.levels.setdefault(tuple(Z), [])
        if self.pool is not None:
            v = self.pool[self.ch.choose(len(self.pool))]
        elif not self.weak:
            v = Fraction(hash((cand, tuple(Z))) % 8, 8)
        else:
            d = len(lv)
            nopt = 2 * d + 1 + (1 if self.nan_mode else 0)
            c = self.ch.choose(nopt)
            if self.nan_mode and c == nopt - 1:
                v = float("nan")
            elif c < d:
                v = lv[c]                      # tie with an existing level
            else:
                g = c - d                      # gap index 0..d
                if d == 0:
                    v = Fraction(0)
                elif g == 0:
                    v = lv[0] - 1
                elif g == d:
                    v = lv[-1] + 1
                else:
                    v = (lv[g - 1] + lv[g]) / 2
        if not (isinstance(v, float) and math.isnan(v)) and v not in lv:
            lv.append(v); lv.sort()
        self.ftab[key] = v
        return v

    def cmi(self, X, Y, Z=None, **kw):
        cand = self.decode(np.asarray(X))[0]
        zs = [] if Z is None else self.decode(np.asarray(Z))
        v = self.f(cand, zs)
        return float(v)

    def shuffle_test(self, X, Y, Z, observed_cmi, alpha=0.05, n_shuffles=500, rng=None, **kw):
        cand = self.decode(np.asarray(X))[0]
        zs = [] if Z is None else self.decode(np.asarray(Z))
        verdict = bool(self.ch.choose(2))
        p = Fraction(len(self.slots) % 8, 8)
        self.slots.append({"pass": verdict, "p": num(p)})
        self.events.append((alpha, cand, zs, observed_cmi, verdict, p))
        return {"Threshold": 0.0, "Value": observed_cmi, "Pass": verdict, "P_value": float(p)}

    def permutation(self, S):
        S = [int(s) for s in S]
        perms = list(itertools.permutations(S))
        order = list(perms[self.ch.choose(len(perms))]) if perms else []
        self.slots.append({"order": order})
        return np.array(order, dtype=int)


DTYPES = [True]
MUTATED = []     # backward() calls that changed the caller's list of accepted predictors


def run_impl(kind, ncand, nz, prefix, rng=None, nan_mode=False, weak=True, pool=None, S_init=None):
    import causationentropy.core.discovery as D

    N = ncand + nz + 2
    ch = Chooser(prefix, rng)
    zinit_ids = list(range(ncand, ncand + nz))
    w = World(ncand, zinit_ids, ch, nan_mode, weak, pool)
    X = np.column_stack([w.col(c, N) for c in range(ncand)]) if ncand else np.zeros((N, 0))
    Y = np.arange(N, dtype=float).reshape(-1, 1)
    Zi = np.column_stack([w.col(c, N) for c in zinit_ids]) if nz else None
    # the data are 0/1 indicator columns: the same numbers as float64, int64 or int32 arrays (the information landscape is real-valued
    # whatever the dtype of the data)
    dt = [np.float64, np.int64, np.int32][(len(prefix) + sum(int(p_) for p_ in prefix) + ncand + nz) % 3] if DTYPES[0] else np.float64
    X, Y = X.astype(dt), Y.astype(dt)
    Zi = None if Zi is None else Zi.astype(dt)
    s_arg = None if S_init is None else list(S_init)
    saved = (D.conditional_mutual_information, D.shuffle_test)
    D.conditional_mutual_information, D.shuffle_test = w.cmi, w.shuffle_test
    try:
        with quiet():
            if kind == "standard":
                S = D.standard_optimal_causation_entropy(X, Y, Zi, w, AF, AB, 7, "knn", "euclidean", 3, "silverman")
            elif kind == "alternative":
                S = D.alternative_optimal_causation_entropy(X, Y, w, AF, AB, 7, "knn", "euclidean", 3, "silverman")
            elif kind == "standard_forward":
                S = D.standard_forward(X, Y, Zi, w, AF, 7, "knn", "euclidean", 3, "silverman")
            elif kind == "alternative_forward":
                S = D.alternative_forward(X, Y, w, AF, 7, "knn", "euclidean", 3, "silverman")
            else:
                S = D.backward(X, Y, s_arg, w, AB, 7, "knn", "euclidean", 3, "silverman")
    finally:
        D.conditional_mutual_information, D.shuffle_test = saved
    if s_arg is not None and s_arg != list(S_init):
        MUTATED.append({"S_init": list(S_init), "after_the_call": list(s_arg), "returned": [int(s_) for s_ in S]})
    return w, [int(s) for s in S], ch.trace


def val_json(v):
    return "nan" if isinstance(v, float) and math.isnan(v) else num(v)


def requests_for(kind, ncand, nz, w, S, S_init=None):
    ftab = [[c, list(z), val_json(v)] for (c, z), v in w.ftab.items()]
    zinit = list(range(ncand, ncand + nz)) if kind != "backward" else list(S_init)
    replay = {"op": "ocse", "variant": kind, "ncand": ncand, "zinit": zinit, "af": num(AF), "ab": num(AB), "f": ftab, "slots": w.slots}
    evs = [["fwd" if a == AF else "bwd", num(Fraction(a)), c, z, val_json(Fraction(o) if not math.isnan(o) else o), ps, num(p)] for (a, c, z, o, ps, p) in w.events]
    spec = None
    if kind in ("standard", "alternative"):
        spec = {"op": "spec_ok", "standard": kind == "standard", "ncand": ncand, "zinit": zinit, "af": num(AF), "ab": num(AB), "f": ftab, "events": evs, "result": S}
    return replay, spec, evs


def enumerate_paths(kind, ncand, nz, limit=None):
    """DFS over all decision paths (landscape weak orderings x verdicts x visiting orders)."""
    stack = [[]]
    out = []
    while stack:
        prefix = stack.pop()
        w, S, trace = run_impl(kind, ncand, nz, prefix)
        out.append((prefix, w, S, trace))
        for i in range(len(prefix), len(trace)):
            for alt in range(1, trace[i][1]):
                stack.append([t[0] for t in trace[:i]] + [alt])
        if limit and len(out) >= limit:
            break
    return out


def _explore_shard(args):
    """worker: exhaustively explore every decision path extending the given prefixes, compare each with the model (replay + specOK).
    Returns (number of paths, number with >=1 accept and >=1 reject, failure records, one sample)."""
    from common import Driver

    kind, ncand, nz, prefixes = args
    drv = Driver()
    npaths = nontriv = 0
    fails, sample = [], None
    batch, bmeta = [], []

    def flush():
        nonlocal batch, bmeta
        if not batch:
            return
        for (k, case, S, evs), r in zip(bmeta, drv.run(batch)):
            if "ok" not in r:
                fails.append(("corr", k, case, r, None)); continue
            if k == "spec":
                if r["ok"] is not True:
                    fails.append(("prop", "spec", case, None, None))
                continue
            m = r["ok"]; mev = m["events"]
            same = (m["S"] == S and len(mev) == len(evs) and all(
                a[0] == b[0] and _q(a[1]) == _q(b[1]) and a[2] == b[2] and a[3] == b[3] and _veq(a[4], b[4]) and a[5] == b[5] and _q(a[6]) == _q(b[6])
                for a, b in zip(mev, evs)))
            if not same:
                fails.append(("corr", "replay", case, {"S": m["S"], "events": mev}, {"S": S, "events": evs}))
        batch, bmeta = [], []

    stack = [list(p) for p in prefixes]
    while stack:
        prefix = stack.pop()
        w, S, trace = run_impl(kind, ncand, nz, prefix)
        for i in range(len(prefix), len(trace)):
            for alt in range(1, trace[i][1]):
                stack.append([t[0] for t in trace[:i]] + [alt])
        replay, spec, evs = requests_for(kind, ncand, nz, w, S, None)
        acc = sum(1 for e in w.events if e[4]); rej = sum(1 for e in w.events if not e[4])
        npaths += 1
        nontriv += 1 if (acc and rej) else 0
        case = {"variant": kind, "ncand": ncand, "zinit": replay["zinit"], "f": replay["f"], "slots": w.slots, "impl_events": evs, "impl_result": S}
        if sample is None and acc and rej:
            sample = case
        batch.append(replay); bmeta.append(("replay", case, S, evs))
        batch.append(spec); bmeta.append(("spec", case, S, evs))
        if len(batch) >= 20000:
            flush()
        if len(fails) > 20:
            break
    flush()
    return npaths, nontriv, fails[:20], sample


def exhaustive_sharded(run, kind, ncand, nz, depth=3, workers=16):
    """split the decision tree at `depth` decisions and explore the sub-trees in parallel"""
    from concurrent.futures import ProcessPoolExecutor

    # collect the distinct prefixes of length <= depth by a truncated DFS
    prefixes, stack = [], [[]]
    while stack:
        prefix = stack.pop()
        w, S, trace = run_impl(kind, ncand, nz, prefix)
        if len(prefix) >= depth or len(trace) <= len(prefix):
            prefixes.append(prefix); continue
        # expand only the next decision
        i = len(prefix)
        for alt in range(trace[i][1]):
            stack.append(prefix + [alt])
    # a prefix shorter than depth that is a complete path is explored as is; others root sub-trees (no overlap: next decision fixed)
    shards = [prefixes[i::workers * 4] for i in range(workers * 4)]
    with ProcessPoolExecutor(workers) as ex:
        results = list(ex.map(_explore_shard, [(kind, ncand, nz, sh) for sh in shards if sh]))
    total = 0
    for npaths, nontriv, fails, sample in results:
        total += npaths
        run.evaluations += npaths; run.traces += npaths
        st = run.suites.setdefault(f"exhaustive-{kind}-{ncand}", {"cases": 0, "nontrivial": 0})
        st["cases"] += npaths; st["nontrivial"] += nontriv
        run.extra.setdefault("exhaustive_counts", {})[f"{kind}-{ncand}-nz{nz}"] = run.extra.get("exhaustive_counts", {}).get(f"{kind}-{ncand}-nz{nz}", 0) + npaths
        if sample is not None and sum(1 for x in run.samples if x.get("suite") == f"exhaustive-{kind}-{ncand}") < 1:
            run.samples.append({"suite": f"exhaustive-{kind}-{ncand}", "case": sample})
        for f in fails:
            if f[0] == "prop":
                run.prop_fail("the tests performed / parents reported do not follow the oCSE forward/backward rule (declarative checker specOK rejects the implementation's own trace)", f[2], {"clause": "spec", "variant": kind})
            else:
                run.corr_fail(f[1], f[2], f[3], f[4], "model replay differs from the implementation")
    return total


def check(run, driver):
    run.rule = (
        "real standard/alternative oCSE, the two forward phases and backward driven by scripted oracles (one-hot coded columns identify "
        "candidate and ordered conditioning set; scripted generator chooses the visiting order). EXHAUSTIVE decision-tree enumeration for "
        "1..3 candidates: all weak orderings of the landscape per round x both verdicts per test x all k! visiting orders; sampled for 4..8 "
        "candidates incl. tie-heavy and NaN landscapes. Every implementation trace is (a) replayed through the Lean model (events and result "
        "must be identical) and (b) judged by the declarative checker specOK. (Quick tier: the standard 3-candidate tree with an EMPTY initial "
        "conditioning set is skipped -- same tree as with two initial ids; thorough runs both.) Non-trivial = at least one acceptance and one rejection"
    )
    thorough = run.tier == "thorough"
    rng = run.rng
    jobs = []  # (suite, kind, ncand, nz, w, S, S_init)
    exhaustive_ok = True
    for kind in ("standard", "alternative"):
        for ncand in (1, 2, 3):
            for nz in ((0, 2) if kind == "standard" else (0,)):
                if kind == "standard" and ncand == 3 and nz == 0 and not thorough:
                    continue  # the nz=2 tree is isomorphic; run both only in thorough
                for prefix, w, S, trace in enumerate_paths(kind, ncand, nz):
                    jobs.append((f"exhaustive-{kind}", kind, ncand, nz, w, S, None))
    run.exhaustive = exhaustive_ok
    if thorough and os.environ.get("C02_SKIP_4") != "1":
        # every decision path for FOUR candidates (alternative: ~1.3 million; standard: ~1.9 million), explored in parallel;
        # distinctness of these paths is structural (different decision sequences), they are counted in `exhaustive_counts`
        n_alt = exhaustive_sharded(run, "alternative", 4, 0)
        n_std = exhaustive_sharded(run, "standard", 4, 1)
        # (these paths are not hashed into `distinct_nontrivial`, which therefore under-counts; see `suites` and `four_candidate_paths`)
        run.extra["four_candidate_paths"] = {"alternative": n_alt, "standard": n_std}
    # forward phases and backward separately (sampled paths of the same trees)
    for it in range(300 if thorough else 100):
        ncand = int(rng.integers(1, 5))
        kind = ["standard_forward", "alternative_forward", "backward"][it % 3]
        if kind == "backward":
            S_init = [int(x) for x in rng.permutation(ncand)[: int(rng.integers(0, ncand + 1))]]
            w, S, trace = run_impl(kind, ncand, 0, [], rng=rng, S_init=S_init)
            jobs.append(("phase-backward", kind, ncand, 0, w, S, S_init))
        else:
            nz = int(rng.integers(0, 3)) if kind == "standard_forward" else 0
            w, S, trace = run_impl(kind, ncand, nz, [], rng=rng)
            jobs.append(("phase-" + kind, kind, ncand, nz, w, S, None))
    # sampled: 4..8 candidates, tie-heavy pools, NaN landscapes
    for it in range(1200 if thorough else 300):
        kind = ("standard", "alternative")[it % 2]
        ncand = int(rng.integers(4, 9)) if it % 3 else int(rng.integers(1, 4))
        nz = int(rng.integers(0, 4)) if kind == "standard" else 0
        mode = it % 4
        pool = None
        nan_mode = False
        if mode == 0:
            pool = [Fraction(0), Fraction(1, 2)]                       # tie-heavy
        elif mode == 1:
            pool = [Fraction(k, 16) for k in range(16)]
        elif mode == 2:
            pool = [Fraction(0), Fraction(1, 2), Fraction(1), float("nan")]  # NaN landscapes
        else:
            nan_mode = True
        if it % 10 == 7:       # landscapes whose values differ far below any display precision: all tiny (weak couplings) ...
            pool, nan_mode, mode = [Fraction(k, 16) / 2**43 for k in range(16)], False, 4        # (steps of 7e-15, all exactly representable)
        elif it % 10 == 9:     # ... or nearly equal (strongly redundant predictors); "largest" is still decided exactly
            pool, nan_mode, mode = [Fraction(1, 4) + Fraction(k, 2**40) for k in range(12)], False, 5        # (steps of 9e-13)
        w, S, trace = run_impl(kind, ncand, nz, [], rng=rng, nan_mode=nan_mode, pool=pool)
        jobs.append((f"sampled-{kind}" + ("-nan" if mode in (2, 3) else ("-fine" if mode in (4, 5) else "")), kind, ncand, nz, w, S, None))
    reqs, meta = [], []
    for (suite, kind, ncand, nz, w, S, S_init) in jobs:
        replay, spec, evs = requests_for(kind, ncand, nz, w, S, S_init)
        acc = sum(1 for e in w.events if e[4]); rej = sum(1 for e in w.events if not e[4])
        case = {"variant": kind, "ncand": ncand, "zinit": replay["zinit"], "f": replay["f"], "slots": w.slots, "impl_events": evs, "impl_result": S}
        run.case(suite, [kind, ncand, nz, replay["f"], w.slots], acc >= 1 and rej >= 1, sample=case if (acc and rej and ncand >= 2) else None)
        run.branch(suite)
        meta.append(("replay", case, S, evs)); reqs.append(replay)
        if spec is not None:
            meta.append(("spec", case, S, evs)); reqs.append(spec)
    for (kind, case, S, evs), r in zip(meta, driver.run_sharded(reqs, shards=16)):
        if "ok" not in r:
            run.corr_fail(kind, case, r, None, "driver error"); continue
        if kind == "spec":
            if r["ok"] is not True:
                run.prop_fail("the tests performed / parents reported do not follow the oCSE forward/backward rule (declarative checker specOK rejects the implementation's own trace)",
                              case, {"clause": "spec", "variant": case["variant"]})
            continue
        run.traces += 1
        m = r["ok"]
        mev = m["events"]
        same = (m["S"] == S and len(mev) == len(evs) and all(
            a[0] == b[0] and _q(a[1]) == _q(b[1]) and a[2] == b[2] and a[3] == b[3] and _veq(a[4], b[4]) and a[5] == b[5] and _q(a[6]) == _q(b[6])
            for a, b in zip(mev, evs)))
        if not same:
            run.corr_fail("replay", case, {"S": m["S"], "events": mev}, {"S": S, "events": evs}, "model replay differs from the implementation")
    # alpha plumbing and own-lag conditioning at discover_network level (alpha_f != alpha_b)
    dreqs, dmeta = [], []
    for it in range(24 if thorough else 8):
        n = int(rng.integers(1, 4)); L = int(rng.integers(1, 4)); T = L + 4 + int(rng.integers(0, 8))
        method = ("standard", "alternative")[it % 2]
        levels = int(rng.choice([2, 4, 1024])); salt = int(rng.integers(0, 100))
        s = DC.coded_series(T, n)
        o = DC.observe(s, DC.ScriptedEstimator(levels, salt, it % 3 == 0), method=method, information="gaussian", max_lag=L, alpha_forward=AF, alpha_backward=AB, n_shuffles=6)
        case = {"n": n, "L": L, "T": T, "method": method, "levels": levels, "salt": salt}
        run.case("discover-level", case, True)
        dmeta.append((case, o, [f"X{i}" for i in range(n)]))
        dreqs.append(DC.model_request(s, n, method, "gaussian", L, AF, AB, 6, o.get("perms", []), o.get("lasso", []), levels, salt, it % 3 == 0))
    for (case, o, names), r in zip(dmeta, driver.run(dreqs)):
        if "ok" not in r:
            run.corr_fail("discover-level", case, r, None, "driver error"); continue
        DC.compare_with_model(run, "discover-level", case, o, r["ok"], names)
        run.traces += 1
    # ---- "each surviving predictor yields exactly one edge labelled with its variable and lag": whole discover_network runs on coded
    #      series with a scripted estimator (permissive levels, few estimator levels: several survivors per target, several lags per source),
    #      replayed through the model of discover (the function the end-to-end theorems of CEProofs/Master.lean are about)
    ereqs, emeta = [], []
    for it in range(60 if thorough else 24):
        n = int(rng.integers(1, 4)); L = int(rng.integers(2, 4)); T = L + 4 + int(rng.integers(0, 8))
        method = ("standard", "alternative")[it % 2]
        levels = int(rng.choice([4, 16, 1024])); salt = int(rng.integers(0, 1000))
        s_ = DC.coded_series(T, n)
        est = DC.ScriptedEstimator(levels, salt, False)
        o = DC.observe(s_.copy(), est, method=method, information="knn", max_lag=L, alpha_forward=0.5, alpha_backward=0.5, n_shuffles=3)
        case = {"n": n, "max_lag": L, "T": T, "method": method, "estimator_script": {"levels": levels, "salt": salt}, "series": "coded: s[t][j] = t*n + j"}
        if "error" in o:
            run.prop_fail("discover_network raises on a valid request", case, {"clause": "total"}, o["error"]); continue
        edges = DC.graph_edges(o["G"])
        multi = len({(a, b) for a, b, *_ in edges}) < len(edges)
        run.case("edges-per-survivor", [n, L, T, method, levels, salt], multi, sample={**case, "edges": [(a, b, l) for a, b, l, *_ in edges][:6]})
        emeta.append((case, o, [f"X{i}" for i in range(n)]))
        ereqs.append(DC.model_request(s_, n, method, "knn", L, 0.5, 0.5, 3, o["perms"], o["lasso"], levels, salt, False))
    for (case, o, names), r in zip(emeta, driver.run_sharded(ereqs)):
        if "ok" not in r:
            run.corr_fail("edges-replay", case, r, None, "driver error"); continue
        DC.compare_with_model(run, "edges-replay", case, o, r["ok"], names)
        run.traces += 1
    for m_ in MUTATED[:3]:
        run.prop_fail("backward() prunes the caller's list of accepted predictors in place (a forward result re-used for another backward order is then no longer the forward result)",
                      m_, {"clause": "purity", "function": "backward"})
    run.assumptions += [
        "oracles are observed at the module-attribute seams discovery.conditional_mutual_information / discovery.shuffle_test and through the generator object handed in",
        "per-call evaluation order of the landscape and the number of estimator evaluations are deliberately NOT observables (caching or re-ordering rewrites do not break the tie)",
        "NaN is ordered as NumPy's argmax treats it (first NaN wins)",
    ]


def _q(j):
    """exact value of a number in either encoding ({'q': [n, d]} / ['n', 'd'] / {'b': bits})"""
    if isinstance(j, dict):
        if "q" in j:
            return Fraction(int(j["q"][0]), int(j["q"][1]))
        from common import b2f
        return Fraction(b2f(j["b"]))
    return unval(j)


def _veq(a, b):
    if a == "nan" or b == "nan":
        return a == b
    return _q(a) == _q(b)
