"""C07 -- discovery is a deterministic function of (data, parameters) only."""
import json
import os
import random
import subprocess
import sys
import warnings

import numpy as np
import pandas as pd

import gen_tables
from common import REPO, VERIF, quiet
from props import disc_common as DC

METHODS = ["standard", "alternative", "information_lasso", "lasso"]
ESTIMATORS = ["gaussian", "knn", "kde", "geometric_knn", "poisson"]


def graph_repr(G, rename=None):
    """canonical, exact representation of a result (repr of cmi and p)"""
    out = []
    for u, v, d in G.edges(data=True):
        a, b = (rename[u], rename[v]) if rename else (u, v)
        out.append((str(a), str(b), int(d["lag"]), repr(float(d["cmi"])), repr(float(d["p_value"]))))
    return sorted(out)


def make_data(info, rng, n, T):
    if info == "poisson":
        x = rng.poisson(2.0, size=(T, n)).astype(float)
        for t in range(1, T):
            x[t, n - 1] = rng.poisson(0.5 + 1.5 * x[t - 1, 0])
        return x
    x = rng.standard_normal((T, n)) * 0.4
    for t in range(1, T):
        x[t, n - 1] += 0.9 * x[t - 1, 0]
    return x


FRESH = r"""
import sys, json, warnings, io, contextlib
sys.path.insert(0, %r)
import numpy as np
warnings.simplefilter("ignore")
from causationentropy import discover_network          # (the fresh process uses the top-level public name)
spec = json.loads(sys.stdin.read())
out = []
for s in spec:
    data = np.array(s["data"], dtype=float)
    with contextlib.redirect_stdout(io.StringIO()):
        G = discover_network(data, **s["kw"])
    out.append(sorted((str(u), str(v), int(d["lag"]), repr(float(d["cmi"])), repr(float(d["p_value"]))) for u, v, d in G.edges(data=True)))
print(json.dumps(out))
"""


def check(run, driver):
    from common import EntryPoints
    discover_network = EntryPoints("discover_network", "causationentropy.core.discovery", "causationentropy.core", "causationentropy")   # every public path, in turn
    run.rule = (
        "(i) the generator actually used is observed through a shim on discovery.np: seed, and the recorded permutation stream must equal the "
        "stream of a fresh default_rng(42) consumed in the same order; (ii) histories of 3..8 calls mixing the probe call with calls on other "
        "data, np.random.seed / random.seed, draws from both global generators and plotting: the probe result (repr of cmi and p) must be "
        "identical every time, equal to a FRESH PROCESS result, and global RNG states unchanged across each call; (iii) presentations of the "
        "same numbers: ndarray C/F, nested lists, DataFrame (labels mapped), int vs float. All methods x estimators. Non-trivial = result has an edge"
    )
    thorough = run.tier == "thorough"
    rng = run.rng
    warnings.simplefilter("ignore")
    # ---- translator obligation
    tabs, notes = gen_tables.generate()
    d = tabs.get("discovery")
    if not d:
        run.extra["translator"] = "UNTRANSLATABLE (" + "; ".join(notes) + ") -- the source no longer has a shape the AST translator recognises; the table obligation is not established on this run and the property is decided by the correspondence alone (DESIGN.md §2.4)"
    else:
        if isinstance(d["seed"], int):
            run.oblige("ObC07 a fresh generator is created inside discover_network from an integer literal (AST)", True, repr(d["seed"]))
        else:
            run.extra["translator_seed"] = "generator creation from an integer literal not recognised textually in discover_network; decided by the observed stream (must be that of a fresh default_rng(42)) below"
        run.oblige("ObC07 no global np.random.<fn> / random.<fn> call and no module-level generator in the discovery module (AST)",
                   not d["global_rng_calls"] and not d["module_level_rng"], repr(d["global_rng_calls"] + d["module_level_rng"]))
    # ---- (i) stream observation with the scripted estimator + model replay
    reqs, meta = [], []
    for it in range(24 if thorough else 8):
        n = int(rng.integers(1, 4)); L = int(rng.integers(1, 3)); T = L + 4 + int(rng.integers(0, 8))
        method = METHODS[it % 4]
        s = DC.coded_series(T, n)
        levels, salt = int(rng.choice([4, 1024])), int(rng.integers(0, 100))
        o = DC.observe(s, DC.ScriptedEstimator(levels, salt, False), method=method, information="knn", max_lag=L, alpha_forward=0.25, alpha_backward=0.125, n_shuffles=5)
        case = {"n": n, "max_lag": L, "T": T, "method": method, "levels": levels, "salt": salt}
        run.case("stream", case, True, sample=case)
        if "error" in o:
            run.prop_fail("valid request raises", case, {"clause": "total"}, o["error"]); continue
        glob = [k for k in o["other_rng"] if k.startswith("global:")]
        if glob:
            run.prop_fail("discovery reads the global NumPy generator", case, {"clause": "globals"}, glob[:5])
        elif o["other_rng"]:
            run.corr_fail("stream", case, "only permutation draws from the function's own generator", o["other_rng"][:5], "generator used in a way the model does not know")
        if len(o["seeds"]) < 1 or not isinstance(o["seeds"][0], (int, np.integer)):
            run.prop_fail("the generator is not created from a fixed integer seed inside the call", case, {"clause": "seed"}, repr(o["seeds"][:3]))
        else:
            fresh = np.random.default_rng(o["seeds"][0])
            ok = True
            for arg, res in zip(o["args"], o["perms"]):
                want = fresh.permutation(arg if isinstance(arg, int) else np.array(arg, dtype=int))
                if [int(v) for v in np.asarray(want).ravel()] != res:
                    ok = False; break
            if not ok or any(sd != o["seeds"][0] for sd in o["seeds"] if isinstance(sd, (int, np.integer))) and False:
                run.prop_fail("permutation stream is not the stream of one fresh generator seeded inside the call (hidden generator state)", case, {"clause": "stream"})
        meta.append((case, o, [f"X{i}" for i in range(n)]))
        reqs.append(DC.model_request(s, n, method, "knn", L, 0.25, 0.125, 5, o["perms"], o["lasso"], levels, salt, False))
    for (case, o, names), r in zip(meta, driver.run(reqs)):
        if "ok" not in r:
            run.corr_fail("stream-replay", case, r, None, "driver error"); continue
        DC.compare_with_model(run, "stream-replay", case, o, r["ok"], names)
        run.traces += 1
    # ---- (ii) histories with the real estimators
    probes = []
    for info in ESTIMATORS:
        for method in (METHODS if thorough else [METHODS[(ESTIMATORS.index(info)) % 4], METHODS[(ESTIMATORS.index(info) + 2) % 4]]):
            if not thorough and info in ("geometric_knn", "poisson") and method != METHODS[(ESTIMATORS.index(info)) % 4]:
                continue
            n = 2; T = 30 if info in ("geometric_knn", "poisson") else int(rng.integers(30, 50))
            data = make_data(info, rng, n, T)
            kw = dict(method=method, information=info, max_lag=int(rng.integers(1, 3)), n_shuffles=8, alpha_forward=0.1, alpha_backward=0.1, k_means=3)
            probes.append((info, method, data, kw))
    # count data under the LASSO selection (cheap, and always has edges whose numbers can be compared)
    for rep in range(4 if thorough else 3):
        data = make_data("poisson", rng, 3, 40)
        probes.append(("poisson", "lasso", data, dict(method="lasso", information="poisson", max_lag=2, n_shuffles=4, alpha_forward=0.1, alpha_backward=0.1)))
    # neighbour estimator on integer-valued data (exact ties), all methods
    for method in (METHODS if thorough else METHODS[::2]):
        data = rng.poisson(2.0, size=(36, 2)).astype(float)
        data[1:, 1] = rng.poisson(0.5 + 1.5 * data[:-1, 0])
        probes.append(("knn", method, data, dict(method=method, information="knn", max_lag=1, n_shuffles=8, alpha_forward=0.1, alpha_backward=0.1, k_means=3)))
    # short, wide series: the LASSO methods take their plain-Lasso fall-back branch (T - max_lag <= n*max_lag + 1)
    for method in ("lasso", "information_lasso", "standard"):
        n, L = 4, 3
        data = rng.standard_normal((int(rng.integers(L + 4, L + n * L + 2)), n))
        probes.append(("gaussian", method, data, dict(method=method, information="gaussian", max_lag=L, n_shuffles=5, alpha_forward=0.1, alpha_backward=0.1)))
    # ... and the same branch on strongly collinear, large-scale series (a common random-walk factor, units of 1e3): the coordinate descent
    #     stops on its iteration cap there, where "try again" code paths live
    for method in ("lasso", "information_lasso"):
        n, L = 4, 3
        T_ = int(rng.integers(L + 6, L + n * L + 2))
        data = (np.cumsum(rng.standard_normal((T_, 1)), axis=0) + 0.01 * rng.standard_normal((T_, n))) * 1e3
        probes.append(("gaussian", method, data, dict(method=method, information="gaussian", max_lag=L, n_shuffles=5, alpha_forward=0.1, alpha_backward=0.1)))
    fresh_spec = [{"data": p[2].tolist(), "kw": p[3]} for p in probes]
    env = dict(os.environ)
    pr = subprocess.run([sys.executable, "-c", FRESH % str(REPO)], input=json.dumps(fresh_spec), capture_output=True, text=True, env=env)
    fresh_results = json.loads(pr.stdout.strip().splitlines()[-1]) if pr.returncode == 0 and pr.stdout.strip() else None
    if fresh_results is None:
        from common import Infra
        raise Infra("fresh-process probe failed: " + pr.stderr[-300:])

    def act_other(r):
        with quiet():
            discover_network(r.standard_normal((25, 2)), max_lag=1, n_shuffles=4, information=["gaussian", "knn"][int(r.integers(0, 2))], method=METHODS[int(r.integers(0, 4))])

    def act_other_counts(r):
        with quiet():
            discover_network(r.poisson(float(r.uniform(0.5, 4)), size=(24, 2)).astype(float), max_lag=1, n_shuffles=3, information="poisson", method=["lasso", "standard"][int(r.integers(0, 2))])

    def act_plot(r):
        import matplotlib
        matplotlib.use("Agg")
        import matplotlib.pyplot as plt
        import networkx as nx
        from causationentropy.core.plotting import plot_causal_network
        G = nx.MultiDiGraph(); G.add_nodes_from([0, 1, 2]); G.add_edge(0, 1, lag=1, cmi=0.2, p_value=0.01)
        with quiet():
            fig, ax = plot_causal_network(G, show_plot=False)
        plt.close("all")

    actions = [lambda r: np.random.seed(int(r.integers(0, 1000))), lambda r: random.seed(int(r.integers(0, 1000))), lambda r: np.random.rand(int(r.integers(1, 9))),
               lambda r: random.random(), act_other, act_plot, act_other_counts]
    # warm-up history at estimator level: many evaluations on OTHER data (memo tables keyed on rounded numbers would now be populated)
    from causationentropy.core.information.conditional_mutual_information import conditional_mutual_information as _cmi
    from causationentropy.core.information.entropy import poisson_entropy as _pe
    for _ in range(1200 if thorough else 500):
        Nw = 16
        Wc = rng.poisson(float(rng.uniform(0.5, 5)), size=(Nw, 3)).astype(float)
        _cmi(Wc[:, :1], Wc[:, 1:2], Wc[:, 2:] if rng.random() < 0.5 else None, method="poisson")
        Wn = rng.standard_normal((Nw, 3))
        _cmi(Wn[:, :1], Wn[:, 1:2], Wn[:, 2:] if rng.random() < 0.5 else None, method=["gaussian", "knn", "kde"][int(rng.integers(0, 3))], k=2)
        _pe(np.round(rng.uniform(0, 6, size=int(rng.integers(1, 4))), int(rng.integers(2, 6))))
    for pi, (info, method, data, kw) in enumerate(probes):
        first = None
        hist_len = int(rng.integers(3, 9))
        results = []
        case = {"information": info, "method": method, "kw": kw, "data": data}
        # near-copies of the probe data analysed first (a table keyed on ROUNDED numbers would now hold the neighbour's entries;
        # the fresh process below never saw them)
        with quiet():
            for eps in (1e-11, 3e-8):
                discover_network(data * (1.0 + eps), **kw)
        for step in range(hist_len):
            for a in rng.integers(0, len(actions), size=int(rng.integers(0, 3))):
                actions[int(a)](rng)
            st_np = np.random.get_state()
            st_py = random.getstate()
            pres = step % 3
            arg = data.copy() if pres == 0 else (np.asfortranarray(data) if pres == 1 else pd.DataFrame(data, columns=[f"X{c}" for c in range(data.shape[1])]))
            with quiet():
                G = discover_network(arg, **kw)
            st_np2 = np.random.get_state()
            if not (st_np[0] == st_np2[0] and np.array_equal(st_np[1], st_np2[1]) and st_np[2:] == st_np2[2:]) or st_py != random.getstate():
                run.prop_fail("the call reads or advances a global random generator", case, {"clause": "globals", "estimator": info}, {"step": step}); break
            results.append(graph_repr(G))
        run.case("history", [info, method, kw["max_lag"], float(data[0, 0]), hist_len], bool(results and results[0]), sample={"information": info, "method": method, "history_length": hist_len, "result": results[0][:3] if results else None})
        if any(r != results[0] for r in results):
            k = next(i for i, r in enumerate(results) if r != results[0])
            run.prop_fail("equal data and parameters gave different graphs depending on what was computed before", case, {"clause": "history", "estimator": info}, {"first": results[0], "later": results[k], "step": k})
        elif results and [list(x) for x in results[0]] != [list(x) for x in fresh_results[pi]]:
            run.prop_fail("result differs from the result of the same call in a fresh process", case, {"clause": "history", "estimator": info}, {"here": results[0], "fresh": fresh_results[pi]})
    # ---- (ii-b) the same array / frame OBJECT refilled in place between two calls must behave like a fresh object with those numbers
    for it in range(16 if thorough else 6):
        info = ["gaussian", "knn", "kde"][it % 3]; method = METHODS[it % 4]
        n = 2; T = int(rng.integers(30, 45))
        d1, d2 = make_data(info, rng, n, T), make_data(info, rng, n, T)
        kw = dict(method=method, information=info, max_lag=int(rng.integers(1, 3)), n_shuffles=6, alpha_forward=0.1, alpha_backward=0.1, k_means=3)
        buf = d1.copy() if it % 2 == 0 else pd.DataFrame(d1.copy(), columns=["X0", "X1"])
        with quiet():
            discover_network(buf, **kw)
            if isinstance(buf, pd.DataFrame):
                buf.iloc[:, :] = d2
            else:
                buf[:] = d2
            g_reused = graph_repr(discover_network(buf, **kw))
            g_fresh = graph_repr(discover_network(d2.copy(), **kw))
        run.case("buffer-reuse", [info, method, kw["max_lag"], float(d1[0, 0])], bool(g_fresh))
        if g_reused != g_fresh:
            run.prop_fail("the result depends on what was computed before: the same data object refilled in place gives a different graph than a fresh object holding the same numbers",
                          {"information": info, "method": method, "kw": kw, "first_data": d1, "second_data": d2}, {"clause": "history", "estimator": info}, {"reused_object": g_reused, "fresh_object": g_fresh})
    # ---- (iii) presentations
    for it in range(40 if thorough else 12):
        info = ESTIMATORS[it % 5]
        if not thorough and info in ("geometric_knn",) and it >= 5:
            continue
        method = METHODS[(it // 5 + it) % 4] if it >= 5 else "lasso"    # (LASSO selection: every estimator gets edges to put numbers on)
        n = int(rng.integers(2, 4)); T = 28 if info in ("geometric_knn", "poisson") else int(rng.integers(28, 45))
        data = make_data(info, rng, n, T)
        if info == "poisson" or it % 4 == 0 or it < 5:
            data = np.round(data * (1 if info == "poisson" else (50 if it < 5 else 4)))   # integer-valued numbers: int and float presentations exist
        if info == "geometric_knn" and it < 10:
            # tie-free integers (per-column ranks, in units of 3): the neighbour estimators are defined there, and integers are integers
            data = (np.argsort(np.argsort(make_data(info, rng, n, T), axis=0), axis=0) * 3 + 1).astype(float)
        kw = dict(method=method, information=info, max_lag=int(rng.integers(1, 3)), n_shuffles=6, alpha_forward=0.1, alpha_backward=0.1, k_means=3)
        labels = [f"col{c}" for c in range(n)]
        pres = {"ndarray-C": np.ascontiguousarray(data), "ndarray-F": np.asfortranarray(data), "nested-lists": data.tolist(),
                "dataframe": pd.DataFrame(data, columns=labels), "strided-view": np.repeat(data, 2, axis=0)[::2]}
        if np.all(data == np.round(data)):
            pres["int64"] = data.astype(np.int64)
            pres["dataframe-int"] = pd.DataFrame(data.astype(np.int64), columns=labels)
        # column labels in no particular order (strings, integers, tuples), and a row index that is not 0..T-1: labels are names, not positions
        lab_alt = {"dataframe-unsorted-str": ["zeta", "alpha", "mid", "beta"][:n], "dataframe-int-desc": [30, 20, 10, 0][:n],
                   "dataframe-tuple": [(1, "b"), (0, "z"), (1, "a"), (0, "a")][:n]}
        for nm_, labs_ in lab_alt.items():
            pres[nm_] = pd.DataFrame(data, columns=pd.Index(labs_, tupleize_cols=False), index=np.arange(T)[::-1] * 3)
        ref = None
        case = {"information": info, "method": method, "kw": kw, "data": data}
        for name, arg in pres.items():
            try:
                with quiet():
                    G = discover_network(arg, **kw)
            except Exception as e:  # noqa
                run.prop_fail("a presentation of the same numbers is rejected", case, {"clause": "presentation", "estimator": info, "presentation": name}, repr(e)); continue
            rename = {l: f"X{i}" for i, l in enumerate(lab_alt.get(name, labels))} if name.startswith("dataframe") else None
            g = graph_repr(G, rename)
            if ref is None:
                ref = (name, g)
            elif g != ref[1]:
                run.prop_fail("the same numbers presented differently give different graphs", case, {"clause": "presentation", "estimator": info, "presentation": name}, {ref[0]: ref[1], name: g})
        run.case("presentation", [info, method, n, T, float(data[0, 0])], bool(ref and ref[1]), sample={"information": info, "method": method, "presentations": list(pres), "result": ref[1][:3] if ref else None})
    # ---- (iii-b) integers are integers: the neighbour estimators on integer-valued data, tie-free (per-column ranks) and coarse with many
    #      ties, under a LASSO and an oCSE selection -- float64 / int64 / nested lists of ints / integer frame must give one graph
    for info, variant, method in (("geometric_knn", "ranks", "lasso"), ("knn", "ranks", "lasso"), ("knn", "ties", "standard"), ("knn", "ties", "alternative"),
                                  ("knn", "ranks", "standard"), ("geometric_knn", "ranks", "information_lasso")):
        n = 2; T = 28 if info == "geometric_knn" else 48
        base = make_data(info, rng, n, T)
        data = (np.argsort(np.argsort(base, axis=0), axis=0) * 3 + 1).astype(float) if variant == "ranks" else np.round(base * 3)
        kw = dict(method=method, information=info, max_lag=1, n_shuffles=6, alpha_forward=0.2, alpha_backward=0.2, k_means=3)
        pres = {"float64": data.copy(), "int64": data.astype(np.int64), "nested-int-lists": data.astype(np.int64).tolist(),
                "dataframe-int": pd.DataFrame(data.astype(np.int64), columns=["X0", "X1"]), "int32-F": np.asfortranarray(data.astype(np.int32))}
        ref = None
        case = {"information": info, "method": method, "integer_data": variant, "kw": kw, "data": data}
        for name, arg in pres.items():
            with quiet():
                g = graph_repr(discover_network(arg, **kw))
            if ref is None:
                ref = (name, g)
            elif g != ref[1]:
                run.prop_fail("the same integer-valued numbers presented as integers and as floats give different graphs", case,
                              {"clause": "presentation", "estimator": info, "presentation": name}, {ref[0]: ref[1], name: g}); break
        run.case("presentation-integers", [info, variant, method, float(data[0, 0])], bool(ref and ref[1]), sample={"information": info, "method": method, "integer_data": variant, "result": ref[1][:3] if ref else None})
    run.assumptions += [
        "a pure model cannot exhibit hidden state: the theorems are thin by design and the history-differential tie decides the property",
        "NumPy's Generator is a deterministic function of its seed (trusted)",
    ]
