"""C08 -- Gaussian estimator equals the closed-form partial-covariance information."""
import math
import warnings
from fractions import Fraction

import numpy as np

from common import logfrac, mat, unval


def ls_reference(X, Y, Z):
    """1/2 [log det S(X|Z) + log det S(Y|Z) - log det S(X,Y|Z)] from least-squares residual covariances."""
    def resid(A):
        A = A - A.mean(axis=0)
        if Z is None or Z.shape[1] == 0:
            return A
        Zc = Z - Z.mean(axis=0)
        beta, *_ = np.linalg.lstsq(Zc, A, rcond=None)
        return A - Zc @ beta

    def ld(A):
        R = resid(A)
        S = R.T @ R / (len(A) - 1)
        return np.linalg.slogdet(np.atleast_2d(S))[1]

    return 0.5 * (ld(X) + ld(Y) - ld(np.hstack((X, Y))))


def check(run, driver):
    from causationentropy.core.information.conditional_mutual_information import conditional_mutual_information, gaussian_conditional_mutual_information
    from common import EntryPoints as _EP     # the star re-exports of causationentropy.core.information are public paths too
    conditional_mutual_information = _EP("conditional_mutual_information", "causationentropy.core.information.conditional_mutual_information", "causationentropy.core.information")
    gaussian_conditional_mutual_information = _EP("gaussian_conditional_mutual_information", "causationentropy.core.information.conditional_mutual_information", "causationentropy.core.information")
    from causationentropy.core.information.mutual_information import gaussian_mutual_information
    from common import EntryPoints as _EP     # the star re-exports of causationentropy.core.information are public paths too
    gaussian_mutual_information = _EP("gaussian_mutual_information", "causationentropy.core.information.mutual_information", "causationentropy.core.information")

    run.rule = (
        "random well-conditioned samples: N in dim+2..60, k_x,k_y in 1..2, k_z in 0..3, random means, per-column scales 1e-3..1e3, mixing with "
        "bounded condition number (inputs quantised to 2^-24 so that the exact rational evaluation stays small). Real gaussian (conditional) MI "
        "and the dispatcher vs 1/2 log of the exact rational ratio of the Lean model, vs an independent least-squares residual reference, scalar "
        "partial-correlation form, affine/mixing invariance and chain rule on the real functions. Non-trivial = k_z>=1 or k_x+k_y>=3"
    )
    thorough = run.tier == "thorough"
    rng = run.rng
    warnings.simplefilter("ignore")
    TOL = lambda ref: 1e-8 + 1e-8 * abs(ref)
    reqs, meta = [], []
    for it in range(300 if thorough else 90):
        kx, ky = int(rng.integers(1, 3)), int(rng.integers(1, 3))
        kz = int(rng.integers(0, 4))
        d = kx + ky + kz
        N = int(rng.integers(d + 2, 61 if thorough else 41))
        while True:
            M = rng.standard_normal((d, d))
            if np.linalg.cond(M) < 30:
                break
        W = rng.standard_normal((N, d)) @ M
        W = W * (10.0 ** rng.uniform(-3, 3, size=d)) + rng.uniform(-5, 5, size=d) * (10.0 ** rng.uniform(-3, 3, size=d))
        W = np.round(W * 2**24) / 2**24
        if np.linalg.cond(np.corrcoef(W.T)) > 1e6 if d > 1 else False:
            continue
        X, Y, Z = W[:, :kx], W[:, kx:kx + ky], (W[:, kx + ky:] if kz else None)
        X0, Y0, Z0 = X.copy(), Y.copy(), None if Z is None else Z.copy()
        val = float(gaussian_conditional_mutual_information(X, Y, Z))
        case = {"N": N, "kx": kx, "ky": ky, "kz": kz, "X": X0, "Y": Y0, "Z": Z0}
        run.case("gaussian", [N, kx, ky, kz, float(W[0, 0])], kz >= 1 or kx + ky >= 3, sample={"N": N, "kx": kx, "ky": ky, "kz": kz, "impl": val})
        sig = {"estimator": "gaussian", "kz": kz}
        if not (np.array_equal(X, X0) and np.array_equal(Y, Y0) and (Z is None or np.array_equal(Z, Z0))):
            run.prop_fail("argument modified", case, {**sig, "clause": "purity"})
        # the property, independent of the model
        ref = float(ls_reference(X, Y, Z))
        if not np.isfinite(val) or abs(val - ref) > TOL(ref):
            run.prop_fail("Gaussian (conditional) MI differs from 1/2[log det S(X|Z) + log det S(Y|Z) - log det S(X,Y|Z)] (least-squares residual covariances)",
                          case, {**sig, "clause": "closed_form"}, {"impl": val, "reference": ref})
        if val < -1e-8:
            run.prop_fail("Gaussian information negative beyond rounding", case, {**sig, "clause": "nonneg"}, val)
        if Z is None:
            mi = float(gaussian_mutual_information(X, Y))
            if mi != val:
                run.prop_fail("Z absent is not treated as the unconditional mutual information", case, {**sig, "clause": "z_none"}, [val, mi])
        disp = float(conditional_mutual_information(X, Y, Z, method="gaussian"))
        if disp != max(0.0, val):
            run.prop_fail("dispatcher('gaussian') differs from max(0, estimator)", case, {**sig, "clause": "dispatcher"}, [disp, val])
        if kx == 1 and ky == 1:
            rx = X - X.mean(0); ry = Y - Y.mean(0)
            if Z is not None:
                Zc = Z - Z.mean(0)
                rx = rx - Zc @ np.linalg.lstsq(Zc, rx, rcond=None)[0]; ry = ry - Zc @ np.linalg.lstsq(Zc, ry, rcond=None)[0]
            r = float((rx * ry).sum() / math.sqrt((rx * rx).sum() * (ry * ry).sum()))
            sc = -0.5 * math.log(1 - r * r)
            if abs(val - sc) > TOL(sc):
                run.prop_fail("scalar case differs from -1/2 log(1 - r^2) with r the sample partial correlation", case, {**sig, "clause": "scalar"}, {"impl": val, "formula": sc})
        # invariances on the real function
        a = 10.0 ** rng.uniform(-2, 2, size=d) * rng.choice([-1, 1], size=d); b = rng.uniform(-3, 3, size=d)
        if it % 4 == 3 or (kz == 0 and it % 2 == 1):
            # "any scales": measurement units such that the columns' spreads lie anywhere between 1e-13 and 1e13,
            # the first one tiny and the last one huge (offsets of the order of the new unit)
            tgt = 10.0 ** rng.uniform(-13, 13, size=d); tgt[0] = 10.0 ** rng.uniform(-13, -11); tgt[-1] = 10.0 ** rng.uniform(11, 13)
            a = tgt / W.std(axis=0) * rng.choice([-1, 1], size=d); b = rng.uniform(-3, 3, size=d) * tgt
        W2 = W * a + b
        v2 = float(gaussian_conditional_mutual_information(W2[:, :kx], W2[:, kx:kx + ky], W2[:, kx + ky:] if kz else None))
        if abs(v2 - val) > TOL(val):
            run.prop_fail("not invariant to affine rescaling of the columns", case, {**sig, "clause": "affine"}, {"before": val, "after": v2, "a": a, "b": b})
        if kz >= 2:
            while True:
                Mz = rng.standard_normal((kz, kz))
                if np.linalg.cond(Mz) < 20:
                    break
            # mixing is applied to the standardised conditioning columns: the property quantifies over well-conditioned
            # sample covariance, and mixing columns of scale 1e-3 with columns of scale 1e3 is not
            Zs = (Z - Z.mean(axis=0)) / Z.std(axis=0)
            v3 = float(gaussian_conditional_mutual_information(X, Y, Zs @ Mz))
            if abs(v3 - val) > TOL(val):
                run.prop_fail("not invariant to invertible linear mixing of the conditioning columns", case, {**sig, "clause": "mixing"}, {"before": val, "after": v3})
        if kz >= 1:
            lhs = float(gaussian_mutual_information(X, np.hstack((Y, Z))))
            rhs = float(gaussian_mutual_information(X, Z)) + val
            if abs(lhs - rhs) > TOL(lhs):
                run.prop_fail("chain rule I(X;Y,Z) = I(X;Z) + I(X;Y|Z) violated", case, {**sig, "clause": "chain"}, {"lhs": lhs, "rhs": rhs})
        meta.append((case, val)); reqs.append({"op": "gauss_ratio", "W": mat(W), "kx": kx, "ky": ky, "kz": kz})
    # ---- nearly independent scalar samples: true information between 1e-9 and 1e-5 (sample correlation 1e-4 .. 5e-3), built exactly:
    #      y = (noise orthogonalised against x) + delta * x. Tiny positive values must come through the dispatcher unchanged
    for it in range(30 if thorough else 12):
        N = int(rng.integers(20, 60))
        x = rng.standard_normal(N); x -= x.mean()
        e = rng.standard_normal(N); e -= e.mean(); e -= (e @ x) / (x @ x) * x
        delta = float(10 ** rng.uniform(-4, -2.3))
        y = e + delta * x * math.sqrt((e @ e) / (x @ x))
        X, Y = x.reshape(-1, 1), y.reshape(-1, 1)
        Z = None
        if it % 3 == 2:
            Z = rng.standard_normal((N, 1)); Z -= Z.mean(); Z -= (Z[:, 0] @ x) / (x @ x) * X; Z -= (Z[:, 0] @ e) / (e @ e) * e.reshape(-1, 1)
        val = float(gaussian_conditional_mutual_information(X, Y, Z))
        ref = float(ls_reference(X, Y, Z))
        disp = float(conditional_mutual_information(X, Y, Z, method="gaussian"))
        case = {"N": N, "kx": 1, "ky": 1, "kz": 0 if Z is None else 1, "regime": "nearly independent", "delta": delta, "X": X, "Y": Y, "Z": Z}
        run.case("gaussian-tiny", [N, delta, float(x[0])], True, sample={"N": N, "delta": delta, "impl": val, "reference": ref, "dispatcher": disp})
        if not np.isfinite(val) or abs(val - ref) > TOL(ref):
            run.prop_fail("Gaussian (conditional) MI differs from the closed form on a nearly independent sample", case, {"estimator": "gaussian", "kz": case["kz"], "clause": "closed_form", "regime": "tiny"}, {"impl": val, "reference": ref})
        elif disp != max(0.0, val):
            run.prop_fail("dispatcher('gaussian') differs from max(0, estimator)", case, {"estimator": "gaussian", "kz": case["kz"], "clause": "dispatcher", "regime": "tiny"}, [disp, val])
    # ---- the same numbers in narrower dtypes (small integers: exactly representable in every one of them) must give the same value
    for it in range(40 if thorough else 12):
        kx, ky = int(rng.integers(1, 3)), int(rng.integers(1, 3)); kz = int(rng.integers(0, 3))
        d = kx + ky + kz; N = int(rng.integers(d + 6, 40))
        Wi = np.clip(np.round(12 * rng.standard_normal((N, d)) @ (rng.standard_normal((d, d)) * 0.4 + np.eye(d))), -120, 120)
        if d > 1 and np.linalg.cond(np.corrcoef(Wi.T)) > 1e4:
            continue
        sp = lambda A: (A[:, :kx], A[:, kx:kx + ky], (A[:, kx + ky:] if kz else None))
        base = float(gaussian_conditional_mutual_information(*sp(Wi.astype(np.float64))))
        ref = float(ls_reference(*sp(Wi.astype(np.float64))))
        case = {"N": N, "kx": kx, "ky": ky, "kz": kz, "W": Wi}
        run.case("gaussian-dtypes", [N, kx, ky, kz, Wi[0].tolist()], True)
        for dt in (np.float32, np.int8, np.int16, np.int32, np.int64, np.float16):
            A = Wi.astype(dt)
            v = float(gaussian_conditional_mutual_information(*sp(A)))
            vd = float(conditional_mutual_information(*sp(A), method="gaussian"))
            if not np.isfinite(v) or abs(v - ref) > TOL(ref) or abs(v - base) > TOL(base) or abs(vd - max(0.0, base)) > TOL(base):
                run.prop_fail("the same (exactly representable) numbers in a narrower dtype give a Gaussian information that differs from the closed form beyond 1e-8",
                              {**case, "dtype": np.dtype(dt).name}, {"estimator": "gaussian", "kz": kz, "clause": "closed_form", "regime": "dtype"}, {"float64": base, np.dtype(dt).name: v, "dispatcher": vd, "reference": ref})
                break
    # ---- arguments of DIFFERENT dtypes: integer counts in one block next to continuous measurements in the others (each block in turn),
    #      single next to double precision; the value is that of the same numbers all in float64
    for it in range(40 if thorough else 14):
        kx, ky = int(rng.integers(1, 3)), int(rng.integers(1, 3)); kz = int(rng.integers(1, 3)) if it % 3 else 0
        d = kx + ky + kz; N = int(rng.integers(d + 8, 50))
        W = rng.standard_normal((N, d)) @ (rng.standard_normal((d, d)) * 0.4 + np.eye(d)) * 3.0
        blocks = [W[:, :kx].copy(), W[:, kx:kx + ky].copy(), (W[:, kx + ky:].copy() if kz else None)]
        who = it % (3 if kz else 2)
        dt = [np.int64, np.int32, np.float32][it % 3] if it % 5 else np.int8
        blocks[who] = np.round(blocks[who] * 4).astype(dt)          # counts / coarsely quantised readings, exactly representable
        if d > 1 and np.linalg.cond(np.corrcoef(np.column_stack([b for b in blocks if b is not None]).astype(np.float64).T)) > 1e4:
            continue
        f64 = [None if b is None else b.astype(np.float64) for b in blocks]
        ref = float(ls_reference(*f64)); base = float(gaussian_conditional_mutual_information(*f64))
        v = float(gaussian_conditional_mutual_information(*blocks)); vd = float(conditional_mutual_information(*blocks, method="gaussian"))
        vs = float(gaussian_conditional_mutual_information(blocks[1], blocks[0], blocks[2]))
        case = {"N": N, "kx": kx, "ky": ky, "kz": kz, "narrow_block": "XYZ"[who], "dtype": np.dtype(dt).name, "X": blocks[0], "Y": blocks[1], "Z": blocks[2]}
        run.case("gaussian-mixed-dtypes", [N, kx, ky, kz, who, np.dtype(dt).name, float(W[0, 0])], True)
        if not np.isfinite(v) or abs(v - ref) > TOL(ref) or abs(v - base) > TOL(base) or abs(vd - max(0.0, base)) > TOL(base) or abs(vs - base) > TOL(base):
            run.prop_fail("Gaussian information of blocks with different dtypes differs from the closed form on the same numbers in float64",
                          case, {"estimator": "gaussian", "kz": kz, "clause": "closed_form", "regime": "mixed-dtype"}, {"float64": base, "mixed": v, "swapped": vs, "dispatcher": vd, "reference": ref})
    # ---- regimes the exact model is too slow for: larger blocks with one shared factor (well conditioned but small determinant)
    #      and columns whose mean is huge compared with their spread; implementation vs the least-squares reference
    for it in range(60 if thorough else 24):
        kx, ky = int(rng.integers(3, 11)), int(rng.integers(3, 11)); kz = int(rng.integers(0, 3)) * (it % 4 != 0)
        d = kx + ky + kz
        N = int(rng.integers(4 * d, 8 * d))
        if it % 8 == 0:      # always some of the widest, most strongly (equi)correlated blocks without a conditioning set: tiny but well-conditioned determinants
            kx, ky, kz = 10, int(rng.integers(8, 11)), 0
            d = kx + ky; N = int(rng.integers(4 * d, 8 * d))
        if it % 2 == 0:
            common = rng.standard_normal((N, 1))
            rho = float(rng.uniform(0.5, 0.88)) if it % 8 else 0.88          # equicorrelated block: condition number (1+(d-1)rho)/(1-rho) stays moderate
            W = math.sqrt(rho) * common + math.sqrt(1 - rho) * rng.standard_normal((N, d))
        else:
            W = rng.standard_normal((N, d)) @ (rng.standard_normal((d, d)) * 0.3 + np.eye(d))
            W = W + float(2.0 ** rng.integers(12, 24)) * rng.choice([-1.0, 1.0], size=d)      # exact power-of-two shifts
        if np.linalg.cond(np.corrcoef(W.T)) > 1e3:
            continue
        X, Y, Z = W[:, :kx], W[:, kx:kx + ky], (W[:, kx + ky:] if kz else None)
        val = float(gaussian_conditional_mutual_information(X, Y, Z))
        ref = float(ls_reference(X, Y, Z))
        case = {"N": N, "kx": kx, "ky": ky, "kz": kz, "regime": "shared-factor blocks" if it % 2 == 0 else "large means", "X": X, "Y": Y, "Z": Z}
        run.case("gaussian-wide", [N, kx, ky, kz, float(W[0, 0])], True, sample={k_: case[k_] for k_ in ("N", "kx", "ky", "kz", "regime")} | {"impl": val, "reference": ref})
        tol = 1e-8 + 1e-8 * abs(ref) + (1e-6 if it % 2 else 0.0) * 0      # same tolerance as the property
        if not np.isfinite(val) or abs(val - ref) > (1e-6 + 1e-6 * abs(ref) if it % 2 else 1e-8 + 1e-8 * abs(ref)):
            run.prop_fail("Gaussian (conditional) MI differs from the partial-covariance closed form on a well-conditioned sample", case,
                          {"estimator": "gaussian", "kz": kz, "clause": "closed_form", "regime": case["regime"]}, {"impl": val, "reference": ref})
    # ---- history: same buffers refilled in place between two calls
    from common import reuse_check
    for it in range(12 if thorough else 5):
        N = int(rng.integers(12, 30)); kz = it % 3
        A1, A2 = rng.standard_normal((N, 2 + kz)), rng.standard_normal((N, 2 + kz)) @ (rng.standard_normal((2 + kz, 2 + kz)) * 0.5 + np.eye(2 + kz))
        sp = lambda W: (W[:, :1], W[:, 1:2], W[:, 2:] if kz else None)
        run.case("history", [N, kz, float(A1[0, 0])], True)
        reuse_check(run, "gaussian (conditional) mutual information", lambda x, y, z: float(gaussian_conditional_mutual_information(x, y, z)), sp(A1), sp(A2), {"estimator": "gaussian", "clause": "purity"})
        reuse_check(run, "dispatcher('gaussian')", lambda x, y, z: float(conditional_mutual_information(x, y, z, method="gaussian")), sp(A1), sp(A2), {"estimator": "gaussian", "clause": "purity"})
    worst = 0.0
    for (case, val), r in zip(meta, driver.run_sharded(reqs, shards=16)):
        if "ok" not in r:
            run.corr_fail("ratio", case, r, None, "driver error"); continue
        run.traces += 1
        ratio = unval(r["ok"]["ratio"])
        if ratio <= 0:
            run.corr_fail("ratio", case, "positive ratio", float(ratio)); continue
        exact = 0.5 * logfrac(ratio)
        worst = max(worst, abs(exact - val))
        if abs(exact - val) > TOL(exact):
            run.corr_fail("ratio", case, exact, val, "1/2 log(exact ratio of the model) differs from the implementation")
    run.extra["max_abs_diff_vs_exact_ratio"] = worst
    run.assumptions += [
        "the logarithm is applied outside the model (math.log on exact big integers); float rounding of corrcoef/slogdet is covered by the 1e-8 tolerance",
        "non-degenerate samples only (condition number of the correlation matrix < 1e6); the -1000 sentinel branch of the unconditional path is outside the property's quantifier",
    ]
