"""C01 -- a reported edge u->v at lag tau really is X_u(t-tau) informing X_v(t)."""
import math
import warnings
from fractions import Fraction

import numpy as np

from common import quiet
from props import disc_common as DC

METHODS = ["standard", "alternative", "information_lasso", "lasso"]
ESTIMATORS = ["gaussian", "knn", "kde", "geometric_knn", "poisson"]


def lagcol(series, L, j, tau):
    T = len(series)
    return series[L - tau: T - tau, j]


def check_calls_decode(run, case, est, series, n, L, settings):
    """every array handed to the estimator seam must be a lagged predictor / aligned target / lagged conditioning column
    taken over the common window t = L..T-1 (coded series: each entry identifies (time, variable))"""
    T = len(series)
    window = list(range(L, T))
    for (X, Y, Z, kw) in est.calls:
        for name, want in settings.items():
            if kw.get(name) != want:
                run.prop_fail("estimator evaluated with settings other than the ones discover_network was given", case, {"clause": "settings"}, {"got": kw, "want": settings})
                return False
        vy, ty = DC.decode_col(Y[:, 0], n)
        if vy is None or ty != window:
            run.prop_fail("target column is not series v at the present time over the window t = max_lag..T-1", case, {"clause": "window"}, {"times": ty[:5], "var": vy})
            return False
        cols = [X[:, 0]] + ([] if Z is None else [Z[:, c] for c in range(Z.shape[1])])
        for col in cols:
            v, times = DC.decode_col(col, n)
            srt = sorted(times)  # surrogate predictors are row-shuffled: compare as a set of times, shape as a shift
            if v is None or len(times) != len(window):
                run.prop_fail("array handed to the estimator is not a single lagged series", case, {"clause": "window"}); return False
            tau = L - srt[0]
            if not (1 <= tau <= L) or srt != [t - tau for t in window]:
                run.prop_fail("predictor/conditioning column is not a series delayed by a lag in 1..max_lag over the common window", case,
                              {"clause": "lag"}, {"var": v, "first_time": srt[0], "expected_window_start": L})
                return False
    return True


def check(run, driver):
    run.rule = (
        "(a) coded series s[t][j]=t*n+j with a scripted rational estimator: n in 1..4, max_lag in 1..4, T in L+3..L+12, all four methods, all "
        "five estimator names: every array at the estimator seam is decoded to (variable, time); every edge's cmi and p-value are recomputed "
        "from independently sliced columns; the whole run is replayed through the Lean model with the recorded permutation stream (events "
        "and edges must be identical). (b) real estimators on real data: each edge's cmi recomputed with the public dispatcher on "
        "independently sliced columns; p*n_shuffles integral; p compared with an independent permutation estimate (Hoeffding, budget 1e-9). "
        "Non-trivial = at least one edge; distinct by parameter hash"
    )
    thorough = run.tier == "thorough"
    # ---- translator: the slices that build the lagged design matrix, the own-history block and the target matrix, the loop nest and the
    #      label appended with each column are read off the CURRENT source; the slice bounds become Lean terms and must say, for ALL
    #      max_lag, tau, T, r: row r of a column = series at time (max_lag + r) - tau (the model's lagged_entry), same row count as the targets
    import gen_tables
    try:
        src = gen_tables.lagged_obligation_source()
        ok, out = gen_tables.obligation_standalone("ObC01", src)
        run.oblige("ObC01 lagged-design slices, own-history slices, target slice and (variable, lag) labelling regenerated from the source = the model's alignment, for all max_lag, tau, T, rows (ring / decide)", ok, out if not ok else "")
        run.extra["translator"] = "lagged design of discover_network translated"
    except gen_tables.Untranslatable as e:
        run.extra["translator"] = f"UNTRANSLATABLE ({e}) -- the construction is outside the recognised shape; the obligation is not established on this run and the property is decided by the coded-series replay alone"
    rng = run.rng
    warnings.simplefilter("ignore")
    reqs, meta = [], []
    combos = [(n, L) for n in range(1, 5) for L in range(1, 5)]
    count = 0
    for (n, L) in combos:
        for mi, method in enumerate(METHODS):
            reps = 3 if thorough else 1
            for rep in range(reps):
                T = L + 3 + int(rng.integers(0, 10))
                info = ESTIMATORS[(count) % 5]; count += 1
                levels = int(rng.choice([2, 4, 16, 1024])); salt = int(rng.integers(0, 1000)); nan_own = bool(rng.integers(0, 2))
                af, ab = float(rng.choice([0.125, 0.25, 0.5])), float(rng.choice([0.0625, 0.25, 0.5]))
                nsh = int(rng.integers(2, 9))
                kset = dict(metric=["euclidean", "cityblock", "chebyshev", "minkowski"][count % 4], k_means=int(rng.integers(1, 5)), bandwidth=["silverman", "scott", 0.7][count % 3])
                s = DC.coded_series(T, n)
                s0 = s.copy()
                est = DC.ScriptedEstimator(levels, salt, nan_own)
                o = DC.observe(s, est, method=method, information=info, max_lag=L, alpha_forward=af, alpha_backward=ab, n_shuffles=nsh, **kset)
                case = {"n": n, "max_lag": L, "T": T, "method": method, "information": info, "alpha_forward": af, "alpha_backward": ab,
                        "n_shuffles": nsh, "estimator_script": {"levels": levels, "salt": salt, "nan_own": nan_own}, **kset, "series": "coded: s[t][j] = t*n + j"}
                if "error" in o:
                    run.prop_fail("discover_network raises on a valid request", case, {"clause": "total"}, o["error"]); continue
                G = o["G"]
                edges = DC.graph_edges(G)
                run.case("coded", [n, L, T, method, info, levels, salt, nan_own, af, ab, nsh], len(edges) >= 1,
                         sample={**case, "edges": [(a, b, l, c, p) for a, b, l, c, p in edges][:4]} if edges else None)
                run.branch(method)
                settings = {"method": info, "metric": kset["metric"], "k": kset["k_means"], "bandwidth": kset["bandwidth"]}
                if not check_calls_decode(run, case, est, s0, n, L, settings):
                    continue
                # ---- every edge, recomputed from independently sliced columns (the property statement, no model involved)
                names = [f"X{i}" for i in range(n)]
                pos = {nm: i for i, nm in enumerate(names)}
                by_target = {}
                for (a, b, lag, c, p) in edges:
                    by_target.setdefault(b, []).append((a, lag))
                ok = True
                for (a, b, lag, c, p) in edges:
                    u, v = pos[a], pos[b]
                    zcols = [lagcol(s0, L, pos[a2], l2) for (a2, l2) in by_target[b] if (a2, l2) != (a, lag)]
                    want = DC.hash_est_value(lagcol(s0, L, u, lag), s0[L:, v], zcols, levels, salt, nan_own)
                    if not ((math.isnan(want) and math.isnan(c)) or want == c):
                        run.prop_fail("edge cmi is not the information between series u delayed by exactly tau and series v at the present time given the other reported parents of v",
                                      case, {"clause": "edge_cmi"}, {"edge": (a, b, lag), "cmi": c, "recomputed": want})
                        ok = False; break
                    if not (0 <= p <= 1) or abs(p * nsh - round(p * nsh)) > 1e-9:
                        run.prop_fail("p_value is not a multiple of 1/n_shuffles in [0,1]", case, {"clause": "p_value"}, {"edge": (a, b, lag), "p": p}); ok = False; break
                # p-values recomputed from the recorded permutations of the edge tests (last test per edge, in edge order per target)
                if ok:
                    tests = o["tests"]
                    # the edge test of an edge into b is the LAST test with target b whose predictor decodes to (u, tau)
                    pairs = []
                    for e in edges:
                        u, v = pos[e[0]], pos[e[1]]
                        cand = [t for t in tests if DC.decode_col(t["Y"][:, 0], n)[0] == v and DC.decode_col(t["X"][:, 0], n)[0] == u
                                and L - min(DC.decode_col(t["X"][:, 0], n)[1]) == e[2]]
                        if not cand:
                            run.prop_fail("no significance test was run for a reported edge", case, {"clause": "p_value"}, {"edge": e[:3]}); break
                        pairs.append((e, cand[-1]))
                    order_edges, etests = [a for a, _ in pairs], [b for _, b in pairs]
                    for e, t in zip(order_edges, etests):
                        perms = [p_ for (k_, p_) in o["obs"].np.log[t["draw_start"]: t["draw_end"]] if k_ == "permutation"]
                        x = t["X"][:, 0]
                        zc = [] if t["Z"] is None else [t["Z"][:, c] for c in range(t["Z"].shape[1])]
                        cnt = 0
                        for pm in perms:
                            vv = DC.hash_est_value(x[pm], t["Y"][:, 0], zc, levels, salt, nan_own)
                            cnt += 1 if vv >= e[3] else 0
                        if len(perms) != nsh or e[4] != cnt / nsh:
                            run.prop_fail("p_value is not the fraction of row-shuffled surrogates of the delayed predictor whose information is >= cmi", case,
                                          {"clause": "p_value"}, {"edge": e[:3], "p": e[4], "recomputed": f"{cnt}/{nsh}", "surrogates": len(perms)})
                            break
                if not np.array_equal(s, s0):
                    run.prop_fail("input series modified", case, {"clause": "purity"})
                meta.append((case, o, names))
                reqs.append(DC.model_request(s0, n, method, info, L, af, ab, nsh, o["perms"], o["lasso"], levels, salt, nan_own))
    for (case, o, names), r in zip(meta, driver.run_sharded(reqs, shards=16)):
        if "ok" not in r:
            run.corr_fail("coded-replay", case, r, None, "driver error"); continue
        DC.compare_with_model(run, "coded-replay", case, o, r["ok"], names)
        run.traces += 1
    # ---------------------------------------------------------------- (b) real data, real estimators
    from common import EntryPoints
    discover_network = EntryPoints("discover_network", "causationentropy.core.discovery", "causationentropy.core", "causationentropy")   # every public path, in turn
    from causationentropy.core.information.conditional_mutual_information import conditional_mutual_information as cmi_fn

    plans = []
    for info in ESTIMATORS:
        reps = (3 if thorough else 1) if info in ("geometric_knn", "poisson") else (6 if thorough else 2)
        for rep in range(reps):
            plans.append((info, METHODS[(rep + ESTIMATORS.index(info)) % 4], "plain"))
    # "any values": a variable that does not move over the window (stuck sensor) placed BEFORE the informative ones, and coarsely rounded
    # readings (many repeated values per column) -- under the estimators that accept them, LASSO selections so that edges exist
    for j in range(4 if thorough else 2):
        plans.append((["knn", "kde"][j % 2], ["standard", "lasso"][j % 2] if j < 2 else ["alternative", "information_lasso"][j % 2], "constant-first"))
        plans.append((["knn", "geometric_knn"][j % 2], ["lasso", "information_lasso"][j % 2], "rounded"))
    ntests = 0
    hoeff = []
    hoeff_plan = []
    for info, method, dkind in plans:
        n = int(rng.integers(2, 4)); L = int(rng.integers(1, 3)); T = int(rng.integers(40, 81)) if info not in ("geometric_knn", "poisson") else 40
        if dkind != "plain":
            n, L = 3, 2
        nsh = 20
        if info == "poisson":
            data = rng.poisson(2.0, size=(T, n)).astype(float)
            for t in range(1, T):
                data[t, 1] = rng.poisson(0.5 + 2.0 * data[t - 1, 0])
        else:
            data = rng.standard_normal((T, n)) * 0.3
            for t in range(1, T):
                data[t, 1] += 0.95 * data[t - 1, 0]
        if info != "poisson" and len(hoeff_plan) % 3 == 1:       # "any values": heavy tails with a few far outliers (Student t, 2 degrees of freedom)
            data = rng.standard_t(2, size=(T, n)) * 0.3
            for t in range(1, T):
                data[t, 1] += 0.95 * data[t - 1, 0]
        if dkind == "constant-first":
            data = rng.standard_normal((T, n)) * 0.5
            data[:, 0] = 1.5                                  # never moves
            for t in range(2, T):
                data[t, 2] += 0.9 * data[t - 2, 1]            # X1 drives X2 at lag 2
        elif dkind == "rounded":
            data = rng.standard_normal((T, n))
            for t in range(1, T):
                data[t, 1] += 0.9 * data[t - 1, 0]
                data[t, 2] += 0.7 * data[t - 1, 1]
            data = np.round(data, 1)                          # readings with one decimal: every column has many repeated values
        k = int(rng.integers(2, 5))
        metric = ["euclidean", "minkowski", "cityblock", "chebyshev"][len(hoeff_plan) % 4] if info in ("knn", "geometric_knn") else "euclidean"
        bw = ["silverman", "scott", 0.6][len(hoeff_plan) % 3] if info == "kde" else "silverman"
        hoeff_plan.append(info)
        kw = dict(method=method, information=info, max_lag=L, alpha_forward=0.1, alpha_backward=0.1, n_shuffles=nsh, k_means=k, metric=metric, bandwidth=bw)
        names = [f"X{i}" for i in range(n)]
        arg = data.copy()
        if len(hoeff_plan) % 2 == 0:       # labelled frame whose labels are in no particular order: u and v denote the series actually measured
            import pandas as pd
            names = [["temp", "load", "flow", "aux"], [30, 10, 20, 0], [("s", 2), ("a", 9), ("m", 0), ("b", 1)]][(len(hoeff_plan) // 2) % 3][:n]
            # (row labels are names too, not positions: chunks concatenated with their own 0..k index, or a reversed one)
            ridx = np.concatenate([np.arange(T // 2), np.arange(T - T // 2)]) if (len(hoeff_plan) // 2) % 2 else np.arange(T)[::-1] * 3
            arg = pd.DataFrame(data.copy(), columns=pd.Index(names, tupleize_cols=False), index=ridx)
        with quiet():
            G = discover_network(arg, **kw)
        pos = {nm: i for i, nm in enumerate(names)}
        edges = DC.graph_edges(G)
        case = {"data_seed": run.seed, "n": n, "T": T, **kw, "data": data, "data_kind": dkind}
        run.case("real-" + info + ("" if dkind == "plain" else "-" + dkind), [info, method, n, L, T, float(data[0, 0])], len(edges) >= 1, sample={"information": info, "method": method, "n": n, "T": T, "edges": [(a, b, l) for a, b, l, _, _ in edges]})
        by_target = {}
        for (a, b, lag, c, p) in edges:
            by_target.setdefault(b, []).append((a, lag))
        for (a, b, lag, c, p) in edges:
            X = lagcol(data, L, pos[a], lag).reshape(-1, 1); Y = data[L:, [pos[b]]]
            others = [(a2, l2) for (a2, l2) in by_target[b] if (a2, l2) != (a, lag)]
            Z = np.column_stack([lagcol(data, L, pos[a2], l2) for (a2, l2) in others]) if others else None
            want = cmi_fn(X, Y, Z, method=info, metric=metric, k=k, bandwidth=bw)
            same = (math.isnan(want) and math.isnan(c)) or abs(want - c) <= 1e-12 * max(1.0, abs(want))
            if not same:
                run.prop_fail("edge cmi differs from the public estimator evaluated on series u delayed by tau, series v at the present time, given the other reported parents",
                              case, {"clause": "edge_cmi", "estimator": info}, {"edge": (a, b, lag), "cmi": c, "recomputed": want})
                continue
            if not (0 <= p <= 1) or abs(p * nsh - round(p * nsh)) > 1e-9:
                run.prop_fail("p_value is not a multiple of 1/n_shuffles in [0,1]", case, {"clause": "p_value", "estimator": info}, {"edge": (a, b, lag), "p": p}); continue
            # independent permutation estimate (measurement)
            if info in ("gaussian", "knn", "kde") and np.isfinite(c):
                m2 = 2000 if thorough else 600
                g2 = np.random.default_rng(int(rng.integers(0, 2**31)))
                cnt = 0
                for _ in range(m2):
                    vv = cmi_fn(X[g2.permutation(len(X))], Y, Z, method=info, metric=metric, k=k, bandwidth=bw)
                    cnt += 1 if vv >= c else 0
                hoeff.append((case, (a, b, lag), p, cnt / m2, nsh, m2))
    ntests = max(1, len(hoeff))
    for case, e, p, p2, n1, n2 in hoeff:
        slack = math.sqrt(math.log(2 * ntests / 1e-9) / (2 * n1)) + math.sqrt(math.log(2 * ntests / 1e-9) / (2 * n2))
        if abs(p - p2) > slack:
            run.prop_fail("p_value disagrees with an independent permutation estimate beyond sampling error", case, {"clause": "p_value_independent"}, {"edge": e, "p": p, "independent": p2, "slack": slack})
    run.extra["independent_pvalue_comparisons"] = [{"edge": e, "p": p, "independent": p2} for _, e, p, p2, _, _ in hoeff][:20]
    run.assumptions += [
        "'under the chosen estimator' = the public dispatcher with the settings discover_network was given, on columns sliced independently from the raw series",
        "the slicing code does not branch on data values, so coded series plus arbitrary oracle outputs reach every path",
        "agreement with an independent permutation estimate is a measurement (two-sample Hoeffding bound, budget 1e-9), not a theorem",
        "LASSO selections are oracles (recorded); NumPy Generator stream recorded and replayed",
    ]
