"""C14 -- PCMCI <-> graph conversion preserves every link, its direction and its numbers."""
import itertools
from concurrent.futures import ProcessPoolExecutor

import networkx as nx
import numpy as np

import gen_tables
from common import Driver, num, unval

MARKS = ["", "-->", "<--", "o-o", "x-x", "-?>"]
SYM = {"o-o": "undirected", "x-x": "conflicting"}
SEM = {"-->": "directed", "<--": "directed", "o-o": "undirected", "-?>": "possible_directed", "x-x": "conflicting"}
SEM_LIST = [[k, v] for k, v in SEM.items()]


def consistent(g):
    """symmetric marks mirrored (numbers are made equal by the generator), none on the diagonal"""
    N, _, L = g.shape
    for i in range(N):
        for j in range(N):
            for l in range(L):
                m = g[i, j, l]
                if m in SYM and (i == j or g[j, i, l] != m):
                    return False
    return True


def expected_edges(g, val, p, binarize, level):
    """the property's statement of the forward conversion"""
    N, _, L = g.shape
    out = []
    for i in range(N):
        for j in range(N):
            for l in range(L):
                m = g[i, j, l]
                if m == "":
                    continue
                sig = (bool(p[i, j, l] < level),) if binarize else (None,)
                base = (l, float(val[i, j, l]), float(p[i, j, l]), SEM[m]) + sig
                if m in ("-->", "-?>"):
                    out.append((i, j) + base)
                elif m == "<--":
                    out.append((j, i) + base)
                elif i < j:
                    out.append((i, j) + base); out.append((j, i) + base)
    return sorted(out, key=repr)


def graph_edges(G, binarize):
    return sorted(((u, v, d["lag"], float(d["val"]), float(d["p_value"]), d["link_type"], d.get("significant") if binarize else None) for u, v, d in G.edges(data=True)), key=repr)


def arrays_for(g, rng=None):
    N, _, L = g.shape
    idx = np.arange(g.size).reshape(g.shape)
    if rng is None:
        val = (idx + 1) / 8.0
        p = (idx % 5) / 4.0
    else:
        val = np.round(rng.standard_normal(g.shape) * 64) / 64 + 0.0   # (+0.0: no negative zeros, they only differ in repr)
        p = rng.integers(0, 17, size=g.shape) / 16.0
    # mirrored symmetric marks carry equal numbers
    for i in range(N):
        for j in range(i + 1, N):
            for l in range(L):
                if g[i, j, l] in SYM and g[j, i, l] == g[i, j, l]:
                    val[j, i, l] = val[i, j, l]; p[j, i, l] = p[i, j, l]
    return val, p


def judge_pattern(args):
    """runs in a worker process: implementation side + direct property predicates; returns (failures, request lines)"""
    from common import ModuleEntryPoints
    U = ModuleEntryPoints("causationentropy.graph.utils", "causationentropy.graph")     # both public paths, in turn

    patterns, binarize, level = args
    fails, reqs = [], []
    for g, val, p in patterns:
        N, _, L = g.shape
        has_bwd = bool((g == "<--").any())
        cons = consistent(g)
        case = {"graph": g.tolist(), "val": val.tolist(), "p": p.tolist(), "binarize": binarize, "level": level}
        try:
            G = U.pcmci_to_networkx({"graph": g, "val_matrix": val, "p_matrix": p}, binarize=binarize, p_value=level)
        except Exception as e:  # noqa
            fails.append(("prop", "conversion of a well-formed PCMCI result raises", case, {"clause": "total"}, repr(e))); continue
        got = graph_edges(G, binarize)
        if list(G.nodes()) != list(range(N)):
            fails.append(("prop", "graph does not have nodes 0..N-1", case, {"clause": "nodes"}, list(G.nodes())))
        if cons:
            want = expected_edges(g, val, p, binarize, level)
            if got != want:
                fails.append(("prop", "edges differ from: '-->' at [i,j,tau] => i->j, '<--' => j->i, symmetric => both directions once, with value/p-value/significant",
                              case, {"clause": "forward", "has_backward_mark": has_bwd}, {"got": got, "want": want}))
            keys = [e[:3] + (e[5],) for e in got]
            if len(set(keys)) != len(keys):
                fails.append(("prop", "a link is represented more than once", case, {"clause": "each_link_once", "has_backward_mark": has_bwd}, keys))
            # PCMCI -> graph -> PCMCI
            if not binarize:
                try:
                    back = U.networkx_to_pcmci(G)
                    bg, bv, bp = back["graph"], back["val_matrix"], back["p_matrix"]
                    for i in range(N):
                        for j in range(N):
                            for l in range(L):
                                if g[i, j, l] != "":
                                    ok = l < bg.shape[2] and bg[i, j, l] == g[i, j, l] and float(bv[i, j, l]) == float(val[i, j, l]) and float(bp[i, j, l]) == float(p[i, j, l])
                                    if not ok:
                                        raise AssertionError((i, j, l))
                except AssertionError as e:
                    fails.append(("prop", "PCMCI -> graph -> PCMCI does not reproduce mark/value/p-value at an entry that carries a link", case,
                                  {"clause": "pcmci_roundtrip", "has_backward_mark": has_bwd}, {"entry": list(e.args[0])}))
                except Exception as e:  # noqa
                    fails.append(("prop", "PCMCI -> graph -> PCMCI raises", case, {"clause": "pcmci_roundtrip", "has_backward_mark": has_bwd}, repr(e)))
        req = {"op": "pcmci_to_graph", "N": N, "Lp1": L, "graph": g.tolist(), "val": [[[num(x) for x in r] for r in m] for m in val.tolist()],
               "p": [[[num(x) for x in r] for r in m] for m in p.tolist()], "binarize": binarize, "level": num(level), "sem": SEM_LIST}
        reqs.append((req, got, case))
    # model side for this shard
    resp = Driver().run([r[0] for r in reqs])
    for (req, got, case), r in zip(reqs, resp):
        if "ok" not in r or "edges" not in r["ok"]:
            fails.append(("corr", "pcmci_to_graph", case, r, got)); continue
        medges = sorted(((e[0], e[1], e[2], float(unval(e[3])), float(unval(e[4])), e[5], e[6]) for e in r["ok"]["edges"]), key=repr)
        if medges != got:
            fails.append(("corr", "pcmci_to_graph", case, medges, got))
    return fails, len(reqs)


def all_small_patterns():
    for combo in itertools.product(MARKS, repeat=8):
        yield np.array(combo, dtype="<U3").reshape(2, 2, 2)


def consistent_small_patterns():
    diag = ["", "-->", "<--", "-?>"]
    off = [(a, b) for a in diag for b in diag] + [("o-o", "o-o"), ("x-x", "x-x")]
    for d in itertools.product(diag, repeat=4):
        for o0 in off:
            for o1 in off:
                g = np.full((2, 2, 2), "", dtype="<U3")
                g[0, 0, 0], g[0, 0, 1], g[1, 1, 0], g[1, 1, 1] = d
                g[0, 1, 0], g[1, 0, 0] = o0
                g[0, 1, 1], g[1, 0, 1] = o1
                yield g


def rand_graph(rng):
    n = int(rng.integers(1, 6))
    pool = [0, 1, 2, 3, 4, "a", "b", ("t", 1), ("t", 2), 9.5]
    labels = [pool[i] for i in rng.choice(len(pool), size=n, replace=False)]
    G = nx.MultiDiGraph(); G.add_nodes_from(labels)
    used = set()
    for _ in range(int(rng.integers(0, 9))):
        u, v = int(rng.integers(0, n)), int(rng.integers(0, n))
        lag = int(rng.integers(0, 4))
        lt = ["directed", "possible_directed", "undirected", "conflicting", None][int(rng.integers(0, 5))]
        d = {}
        full = rng.random() < 0.7
        if full or rng.random() < 0.5:
            d["lag"] = lag
        else:
            lag = 0
        if lt is not None:
            d["link_type"] = lt
        # numbers as they come out of NumPy code: Python floats, NumPy floats of any width, 0-d arrays, integers (all exactly k/8, k/16)
        def nt(x):
            t = int(rng.integers(0, 8))
            if t >= 6 and x == int(x):
                return int(x) if t == 6 else np.int64(int(x))
            return [float, np.float64, np.float32, np.float16, np.array, float][t % 6](x)
        if full or rng.random() < 0.5:
            d["val" if rng.random() < 0.7 else "cmi"] = nt(float(rng.integers(-32, 32)) / 8)
        if full or rng.random() < 0.5:
            d["p_value"] = nt(float(rng.integers(0, 17)) / 16)
        if lt in ("undirected", "conflicting"):
            if u == v or (u, v, lag) in used or (v, u, lag) in used:
                continue
            used.add((u, v, lag)); used.add((v, u, lag))
            G.add_edge(labels[u], labels[v], **d); G.add_edge(labels[v], labels[u], **d)
        else:
            if (u, v, lag) in used:
                continue
            used.add((u, v, lag))
            G.add_edge(labels[u], labels[v], **d)
    return G


def check(run, driver):
    from common import ModuleEntryPoints
    U = ModuleEntryPoints("causationentropy.graph.utils", "causationentropy.graph")     # both public paths, in turn

    run.rule = (
        "PCMCI mark patterns for 2 nodes x lags {0,1}: thorough = ALL 6^8 patterns + all 82,944 consistent ones; quick = a deterministic "
        "slice of both; random patterns up to 5 nodes x 4 lags with random values; 2-D contemporaneous inputs; binarize on/off; random labelled "
        "graphs (mixed labels, self-loops, parallel edges at different lags, missing attributes, mirrored symmetric pairs) for graph->PCMCI->graph; "
        "malformed stream (unknown marks, wrong ranks, shape mismatches). Non-trivial = at least 2 links; distinct by content hash"
    )
    thorough = run.tier == "thorough"
    rng = run.rng
    # ---- translator obligation
    tabs, notes = gen_tables.generate()
    u = tabs.get("utils") or {}
    if "LINK_TYPE_SEMANTICS" not in u or "SEMANTIC_TO_LINK_TYPE" not in u:
        run.extra["translator"] = "UNTRANSLATABLE (" + "; ".join(notes) + ") -- the source no longer has a shape the AST translator recognises; the table obligation is not established on this run and the property is decided by the correspondence alone (DESIGN.md §2.4)"
    else:
        body = ("example : Generated.linkTypeSemantics = CE.Graph.stdSem := by decide\n"
                "example : Generated.semanticToLinkType = [(\"directed\", \"-->\"), (\"undirected\", \"o-o\"), (\"possible_directed\", \"-?>\"), (\"conflicting\", \"x-x\")] := by decide\n")
        ok, out = gen_tables.obligation("ObC14", body)
        run.oblige("ObC14 generated LINK_TYPE_SEMANTICS / SEMANTIC_TO_LINK_TYPE = documented tables (decide)", ok, out if not ok else "")
    if dict(U.LINK_TYPE_SEMANTICS) != SEM:
        run.corr_fail("runtime-table", {}, SEM, dict(U.LINK_TYPE_SEMANTICS), "run-time LINK_TYPE_SEMANTICS differs from the documented table")
    # ---- pattern streams
    small_all = list(all_small_patterns()) if thorough else None
    cons = list(consistent_small_patterns())
    if thorough:
        pats = [(g,) + arrays_for(g) for g in small_all] + [(g,) + arrays_for(g) for g in cons]
        run.exhaustive = True
    else:
        step = 9
        off = run.seed % step
        pats = [(g,) + arrays_for(g) for g in cons[off::step]]
        # random arbitrary 2x2x2 patterns
        for _ in range(3000):
            g = np.array([MARKS[i] for i in rng.integers(0, 6, size=8)], dtype="<U3").reshape(2, 2, 2)
            pats.append((g,) + arrays_for(g))
        run.exhaustive = False
    for _ in range(4000 if thorough else 800):
        N, L = int(rng.integers(1, 6)), int(rng.integers(1, 5))
        g = np.full((N, N, L), "", dtype="<U3")
        dens = rng.random() * 0.6
        for i in range(N):
            for j in range(N):
                for l in range(L):
                    if rng.random() < dens:
                        m = MARKS[int(rng.integers(1, 6))]
                        if m in SYM:
                            if i == j:
                                continue
                            g[i, j, l] = m; g[j, i, l] = m
                        elif g[i, j, l] == "":
                            g[i, j, l] = m
        # mirrored symmetric marks may have been overwritten: repair consistency
        for i in range(N):
            for j in range(N):
                for l in range(L):
                    if g[i, j, l] in SYM and g[j, i, l] != g[i, j, l]:
                        g[i, j, l] = ""
        pats.append((g,) + arrays_for(g, rng))
    shards = 16
    jobs = []
    for bi, (binarize, level) in enumerate([(False, 0.05), (True, 0.5)]):
        sel = pats if bi == 0 else pats[:: (7 if thorough else 3)]
        for s in range(shards):
            jobs.append((sel[s::shards], binarize, level))
    for g, val, p in pats:
        nlinks = int((g != "").sum())
        run.evaluations += 1
    with ProcessPoolExecutor(shards) as ex:
        results = list(ex.map(judge_pattern, jobs))
    import hashlib, json
    for (fails, n) in results:
        run.traces += n
        for f in fails:
            if f[0] == "prop":
                run.prop_fail(f[1], f[2], f[3], f[4])
            else:
                run.corr_fail(f[1], f[2], f[3], f[4])
    # distinct / non-trivial accounting (measured here, cheaply)
    run.evaluations -= len(pats)
    for g, val, p in pats:
        run.case("pattern", [g.shape, g.tolist(), val.tolist()[0][0]], int((g != "").sum()) >= 2,
                 sample={"graph": g.tolist()} if (g != "").sum() >= 3 else None)
    # ---- 2-D contemporaneous inputs
    for _ in range(100 if thorough else 30):
        N = int(rng.integers(1, 5))
        g2 = np.full((N, N), "", dtype="<U3")
        for i in range(N):
            for j in range(N):
                if rng.random() < 0.4 and i != j:
                    g2[i, j] = ["-->", "-?>"][int(rng.integers(0, 2))]
        v2 = rng.integers(-8, 8, size=(N, N)) / 8.0; p2 = rng.integers(0, 9, size=(N, N)) / 8.0
        G = U.pcmci_to_networkx({"graph": g2, "val_matrix": v2, "p_matrix": p2})
        want = expected_edges(g2[:, :, None], v2[:, :, None], p2[:, :, None], False, 0.05)
        run.case("2d", [g2.tolist(), v2.tolist()], int((g2 != "").sum()) >= 2)
        if graph_edges(G, False) != want:
            run.prop_fail("contemporaneous-only 2-D input is not treated as lag 0", {"graph": g2.tolist(), "val": v2.tolist(), "p": p2.tolist()}, {"clause": "forward", "has_backward_mark": False})
    # ---- graph -> PCMCI -> graph
    reqs, meta = [], []
    for _ in range(2500 if thorough else 500):
        G = rand_graph(rng)
        nodes = list(G.nodes()); pos = {n: i for i, n in enumerate(nodes)}
        G0 = G.copy()
        edges = list(G.edges(data=True))
        case = {"nodes": [repr(n) for n in nodes], "edges": [(pos[a], pos[b], d) for a, b, d in edges]}
        run.case("graph-roundtrip", [case["nodes"], case["edges"]], len(edges) >= 2, sample=case if len(edges) >= 3 else None)
        want = sorted(((pos[a], pos[b], d.get("lag", 0), d.get("link_type", "directed"), float(d.get("val", d.get("cmi", 0.0))), float(d.get("p_value", 1.0))) for a, b, d in edges), key=repr)
        try:
            P = U.networkx_to_pcmci(G)
            back = U.pcmci_to_networkx(P)
            got = sorted(((a, b, d["lag"], d["link_type"], float(d["val"]), float(d["p_value"])) for a, b, d in back.edges(data=True)), key=repr)
        except Exception as e:  # noqa
            run.prop_fail("graph -> PCMCI -> graph raises", case, {"clause": "graph_roundtrip", "has_backward_mark": False}, repr(e)); continue
        if sorted(set(map(repr, got))) != sorted(set(map(repr, want))) or len(got) != len(want):
            run.prop_fail("graph -> PCMCI -> graph does not return the same set of (source, target, lag, link type, value, p-value)", case,
                          {"clause": "graph_roundtrip", "has_backward_mark": False}, {"got": got, "want": want})
        if not nx.utils.graphs_equal(G, G0):
            run.prop_fail("graph modified by conversion", case, {"clause": "purity"})
        ine = []
        for a, b, d in edges:
            e = {"u": pos[a], "v": pos[b]}
            if "lag" in d: e["lag"] = d["lag"]
            if "link_type" in d: e["type"] = d["link_type"]
            if "val" in d: e["val"] = num(float(d["val"]))
            if "cmi" in d: e["cmi"] = num(float(d["cmi"]))
            if "p_value" in d: e["p"] = num(float(d["p_value"]))
            ine.append(e)
        meta.append(("g2p", case, P, len(nodes))); reqs.append({"op": "graph_to_pcmci", "N": len(nodes), "edges": ine})
        meta.append(("rt", case, got, None)); reqs.append({"op": "round_trips", "N": len(nodes), "edges": ine, "sem": SEM_LIST})
    for (kind, case, obj, N), r in zip(meta, driver.run_sharded(reqs)):
        if "ok" not in r or "error" in (r.get("ok") or {}):
            run.corr_fail(kind, case, r, "implementation succeeded"); continue
        run.traces += 1
        m = r["ok"]
        if kind == "g2p":
            ok = m["graph"] == obj["graph"].tolist() and [[[float(unval(x)) for x in rr] for rr in mm] for mm in m["val"]] == obj["val_matrix"].tolist() \
                and [[[float(unval(x)) for x in rr] for rr in mm] for mm in m["p"]] == obj["p_matrix"].tolist()
            if not ok:
                run.corr_fail("graph_to_pcmci", case, m["graph"], obj["graph"].tolist())
        else:
            medges = sorted(((e[0], e[1], e[2], e[5], float(unval(e[3])), float(unval(e[4]))) for e in m["edges"]), key=repr)
            if medges != obj:
                run.corr_fail("round-trip", case, medges, obj)
    # ---- malformed stream
    bad_inputs = []
    g = np.full((2, 2, 2), "", dtype="<U3"); g[0, 1, 1] = "==>"
    bad_inputs.append(("unknown mark", {"graph": g, "val_matrix": np.zeros((2, 2, 2)), "p_matrix": np.ones((2, 2, 2))}))
    g = np.full((2, 2, 2), "", dtype="<U3"); g[1, 1, 0] = "->"
    bad_inputs.append(("unknown mark", {"graph": g, "val_matrix": np.zeros((2, 2, 2)), "p_matrix": np.ones((2, 2, 2))}))
    ok3 = np.full((2, 2, 2), "", dtype="<U3")
    bad_inputs.append(("rank 1 graph", {"graph": np.array(["", ""]), "val_matrix": np.zeros((2, 2, 2)), "p_matrix": np.ones((2, 2, 2))}))
    bad_inputs.append(("rank 4 graph", {"graph": np.full((2, 2, 2, 1), ""), "val_matrix": np.zeros((2, 2, 2)), "p_matrix": np.ones((2, 2, 2))}))
    bad_inputs.append(("rank 1 values", {"graph": ok3, "val_matrix": np.zeros(8), "p_matrix": np.ones((2, 2, 2))}))
    bad_inputs.append(("rank 4 p-values", {"graph": ok3, "val_matrix": np.zeros((2, 2, 2)), "p_matrix": np.ones((2, 2, 2, 1))}))
    bad_inputs.append(("shape mismatch values", {"graph": ok3, "val_matrix": np.zeros((2, 2, 3)), "p_matrix": np.ones((2, 2, 2))}))
    bad_inputs.append(("shape mismatch p-values", {"graph": ok3, "val_matrix": np.zeros((2, 2, 2)), "p_matrix": np.ones((3, 2, 2))}))
    bad_inputs.append(("2-D graph with 3-D values", {"graph": np.full((2, 2), ""), "val_matrix": np.zeros((2, 2, 2)), "p_matrix": np.ones((2, 2, 2))}))
    # every way the value / p-value array can disagree with the graph's shape, including the shapes NumPy would silently broadcast
    # (singleton or missing axes: what a wrapper that squeezes its output hands over)
    for _ in range(12 if thorough else 5):
        N_, L_ = int(rng.integers(2, 5)), int(rng.integers(2, 4))
        gg = np.full((N_, N_, L_), "", dtype="<U3"); gg[0, 1, 1] = "-->"
        for shp in [(N_, N_, 1), (1, 1, 1), (N_, 1, L_), (1, N_, L_), (N_, N_), (N_, N_, L_ + 1), (N_ + 1, N_, L_), (1,), (L_,), (N_, L_), (1, 1, L_),
                    (N_, L_, N_), (L_, N_, N_), (N_ * N_ * L_,), (N_ * N_, L_), (N_, N_ * L_), (N_ * L_, N_)]:      # (the last six: the same NUMBER of entries in another layout)
            if shp == (N_, N_, L_):
                continue
            for which in ("val_matrix", "p_matrix"):
                res = {"graph": gg, "val_matrix": np.zeros((N_, N_, L_)), "p_matrix": np.ones((N_, N_, L_))}
                res[which] = np.full(shp, 0.25)
                bad_inputs.append((f"shape mismatch {which} {shp} vs graph {(N_, N_, L_)}", res))
    for what, res in bad_inputs:
        run.case("malformed", what + repr(res["graph"].shape) + repr(res["val_matrix"].shape), True)
        try:
            U.pcmci_to_networkx(res)
            run.prop_fail("malformed PCMCI result does not raise ValueError", {"what": what}, {"clause": "errors"})
        except ValueError:
            pass
        except Exception as e:  # noqa
            run.prop_fail("malformed PCMCI result raises something other than ValueError", {"what": what}, {"clause": "errors"}, repr(e))
    Gb = nx.MultiDiGraph(); Gb.add_edge(0, 1, lag=1, link_type="weird")
    try:
        U.networkx_to_pcmci(Gb)
        run.prop_fail("unknown semantic link type does not raise ValueError", {"what": "link_type='weird'"}, {"clause": "errors"})
    except ValueError:
        pass
    run.assumptions += [
        "node identity across the PCMCI form is the position in G.nodes() (the PCMCI dictionary has no label slot)",
        "consistent mark pattern = symmetric marks mirrored with equal numbers, none on the diagonal; '<--' marks: forward conversion checked strictly, once-only and PCMCI round trip recorded as a known finding",
        "NetworkX edge iteration order is input (edges compared as sorted multisets)",
    ]
