"""C16 -- lag subnetworks partition the edges; companion matrix has VAR block form."""
import itertools

import networkx as nx
import numpy as np

from common import num, unval

LABEL_POOLS = [
    lambda n: list(range(n)),
    lambda n: [f"X{i}" for i in range(n)],
    lambda n: [("v", i) for i in range(n)],
    lambda n: [["a", 3, (1, 2), "b", 7.5, -1, "zz", (0,), "c", 11, (2, 1), "d", 0.25, -7][i] for i in range(n)],
]


def _graph(labels, triples, rng, drop_attrs=False, np_lags=False):
    G = nx.MultiDiGraph()
    G.add_nodes_from(labels)
    for (u, v, lag) in triples:
        attrs = {"lag": np.int64(lag) if np_lags else lag, "cmi": 0.0 if rng.random() < 0.1 else float(rng.integers(-40, 100)) / 16, "p_value": float(rng.integers(0, 17)) / 16}      # (exact zeros always present)
        if drop_attrs:
            for k in ("cmi", "p_value"):
                if rng.random() < 0.3:
                    del attrs[k]
            if rng.random() < 0.3:     # attributes the functions do not document (NetworkX itself gives `weight` a meaning)
                attrs["weight"] = float(rng.choice([0.0, 0.5, 2.0, -1.0, 3.0]))
            if rng.random() < 0.15:
                attrs["color"] = "red"
        G.add_edge(labels[u], labels[v], **attrs)
    return G


def _requests(G):
    nodes = list(G.nodes())
    pos = {n: i for i, n in enumerate(nodes)}
    es = []
    for u, v, k, d in G.edges(keys=True, data=True):
        e = {"u": pos[u], "v": pos[v]}
        if "lag" in d:
            e["lag"] = int(d["lag"])   # (np.int64 lags denote the same lags)
        if "cmi" in d:
            e["cmi"] = num(d["cmi"])
        if "p_value" in d:
            e["p"] = num(d["p_value"])
        es.append(e)
    return nodes, pos, es


def check(run, driver):
    from causationentropy.core import linalg

    run.rule = (
        "multigraphs with unique (source,target,lag) triples: exhaustive for n<=2 nodes and lags in {0,1,2} (all subsets of the "
        "12 triples), random for n<=8, lags<=6, mixed label types, isolated nodes, self-loops, missing cmi/p attributes. "
        "Non-trivial = at least 2 edges with two different positive lags; distinct by content hash"
    )
    thorough = run.tier == "thorough"
    # ---- translator: subnetwork's filter / copied attributes / defaults and companion_matrix's loop ranges and slice arithmetic are
    #      read off the CURRENT source and must be the model's (subEdges, companion: setBlock C 0 (l*n), setBlock C ((k+1)*n) (k*n))
    import gen_tables
    try:
        src = gen_tables.linalg_obligation_source()
        ok, out = gen_tables.obligation_standalone("ObC16", src)
        run.oblige("ObC16 subnetwork filter/attributes/defaults and companion_matrix block arithmetic regenerated from the source = the model's (decide / ring)", ok, out if not ok else "")
        run.extra["translator"] = "subnetwork and companion_matrix translated"
    except gen_tables.Untranslatable as e:
        run.extra["translator"] = f"UNTRANSLATABLE ({e}) -- outside the recognised shape; the obligation is not established on this run and the property is decided by the comparison with the model and the block-form definition alone"
    rng = run.rng
    graphs = []
    # exhaustive small scope
    for n in (1, 2):
        all_tr = [(u, v, l) for u in range(n) for v in range(n) for l in (0, 1, 2)]
        for mask in range(2 ** len(all_tr)):
            tr = [t for i, t in enumerate(all_tr) if mask >> i & 1]
            graphs.append(("exhaustive-n<=2", _graph(list(range(n)), tr, rng), tr))
    run.exhaustive = True
    for it in range(600 if thorough else 150):
        n = int(rng.integers(1, 9 if it % 5 else 14)); K = int(rng.integers(0, 7))
        labels = LABEL_POOLS[it % 4](n)
        if it % 2 and it % 4 != 3:          # nodes inserted in no particular order (and 'X10' sorts before 'X2'): node order = insertion order
            labels = [labels[i] for i in rng.permutation(n)]
        all_tr = [(u, v, l) for u in range(n) for v in range(n) for l in range(0, K + 1)]
        m = int(rng.integers(0, min(len(all_tr), 3 * n + 2) + 1))
        idx = rng.choice(len(all_tr), size=m, replace=False) if m else []
        tr = [all_tr[i] for i in idx]
        graphs.append(("random", _graph(labels, tr, rng, drop_attrs=True, np_lags=(it % 3 == 1)), tr))
    reqs, meta = [], []
    for suite, G, tr in graphs:
        G0 = G.copy()
        nodes, pos, es = _requests(G)
        n = len(nodes)
        lags = [t[2] for t in tr]
        K = max(lags, default=0)
        case = {"nodes": [repr(x) for x in nodes], "edges": [(pos[u], pos[v], d) for u, v, d in G.edges(data=True)]}
        run.case(suite, case, len(tr) >= 2 and len({l for l in lags if l > 0}) >= 2, sample=case)
        # ---------------- property, directly on the implementation
        C = linalg.companion_matrix(G)
        sub_union = []
        for k in range(0, K + 2):
            H = linalg.subnetwork(G, k)
            if list(H.nodes()) != nodes or H.is_multigraph() or not H.is_directed():
                run.prop_fail("subnetwork does not contain all nodes (in order) as a DiGraph", case, {"clause": "sub_nodes"}, {"lag": k})
            want = {(u, v): (d.get("cmi", 0.0), d.get("p_value", 1.0)) for u, v, d in G.edges(data=True) if d.get("lag") == k}
            got = {(u, v): (d.get("cmi"), d.get("p_value")) for u, v, d in H.edges(data=True)}
            if want != got:
                run.prop_fail("lag-k subnetwork is not exactly the lag-k edges with their cmi/p-value", case, {"clause": "sub_edges"}, {"lag": k, "want": sorted(map(repr, want.items())), "got": sorted(map(repr, got.items()))})
            sub_union += [(u, v, k) for (u, v) in got]
            meta.append(("sub", case, k, H, pos)); reqs.append({"op": "subnetwork", "edges": es, "lag": k})
        lagged = sorted((repr(u), repr(v), d["lag"]) for u, v, d in G.edges(data=True) if "lag" in d)
        if sorted((repr(u), repr(v), k) for u, v, k in sub_union) != lagged:
            run.prop_fail("subnetworks do not partition the edge set", case, {"clause": "partition"})
        if K == 0:
            if C.shape != (0, 0):
                run.prop_fail("companion matrix must be 0x0 when no edge has a positive lag", case, {"clause": "companion_empty"}, C.shape)
        else:
            want = np.zeros((n * K, n * K))
            for u, v, d in G.edges(data=True):
                l = d.get("lag", 0)
                if l >= 1:
                    want[pos[u], (l - 1) * n + pos[v]] = 1
            for k in range(1, K):
                want[k * n:(k + 1) * n, (k - 1) * n:k * n] = np.eye(n)
            if C.shape != want.shape or not np.array_equal(C, want):
                run.prop_fail("companion matrix is not [A1..AK; I 0; ...]", case, {"clause": "companion_entry"}, {"got": C.tolist(), "want": want.tolist()})
        if not nx.utils.graphs_equal(G, G0):
            run.prop_fail("graph modified", case, {"clause": "purity"})
        meta.append(("comp", case, None, C, pos)); reqs.append({"op": "companion", "edges": es, "n": n})
    # ---- histories: attributes changed IN PLACE (edge and node counts unchanged) between two calls on the same graph object
    for it in range(60 if thorough else 20):
        n = int(rng.integers(2, 6)); K = int(rng.integers(1, 4))
        all_tr = [(u, v, l) for u in range(n) for v in range(n) for l in range(0, K + 1)]
        idx = rng.choice(len(all_tr), size=min(len(all_tr), int(rng.integers(2, 8))), replace=False)
        tr = [all_tr[i] for i in idx]
        G = _graph(list(range(n)), tr, rng)
        linalg.companion_matrix(G); [linalg.subnetwork(G, k) for k in range(K + 2)]
        # move one edge to another lag / change its numbers, keeping the triples unique
        u, v, key, d = list(G.edges(keys=True, data=True))[int(rng.integers(0, G.number_of_edges()))]
        free = [l for l in range(0, K + 2) if (u, v, l) not in {(a, b, dd["lag"]) for a, b, dd in G.edges(data=True)}]
        if free:
            d["lag"] = int(free[int(rng.integers(0, len(free)))])
        d["p_value"] = 0.0 if it % 2 else d["p_value"] / 2
        d["cmi"] = d["cmi"] + 1.0
        fresh = nx.MultiDiGraph(); fresh.add_nodes_from(G.nodes()); fresh.add_edges_from((a, b, dict(dd)) for a, b, dd in G.edges(data=True))
        case = {"nodes": list(range(n)), "edges_after_change": [(a, b, dd) for a, b, dd in G.edges(data=True)]}
        run.case("history", [n, K, [(a, b, dd) for a, b, dd in G.edges(data=True)]], True)
        same = np.array_equal(linalg.companion_matrix(G), linalg.companion_matrix(fresh))
        for k in range(K + 3):
            h1, h2 = linalg.subnetwork(G, k), linalg.subnetwork(fresh, k)
            same = same and sorted(map(repr, h1.edges(data=True))) == sorted(map(repr, h2.edges(data=True)))
        if not same:
            run.prop_fail("after an edge attribute was changed in place, the subnetworks / companion matrix of the same graph object differ from those of a fresh graph with the same edges (stale state)",
                          case, {"clause": "history"})
    resp = driver.run_sharded(reqs)
    for (kind, case, k, obj, pos), r in zip(meta, resp):
        if "ok" not in r:
            run.corr_fail(kind, case, r, None, "driver error"); continue
        run.traces += 1
        if kind == "comp":
            M = r["ok"]
            C = obj
            ok = (len(M) == C.shape[0]) and all(len(row) == C.shape[1] and all(float(a) == float(b) for a, b in zip(row, crow)) for row, crow in zip(M, C.tolist()))
            if not ok:
                run.corr_fail("companion", case, M, C.tolist())
        else:
            got = sorted((pos[u], pos[v], float(d.get("cmi")), float(d.get("p_value"))) for u, v, d in obj.edges(data=True))
            want = sorted((e[0], e[1], float(unval(e[2])), float(unval(e[3]))) for e in r["ok"])
            if got != want:
                run.corr_fail("subnetwork", {"case": case, "lag": k}, want, got)
    run.assumptions += ["NetworkX edge/node iteration order is taken as input (trusted container semantics)",
                        "the property restricts to unique (source,target,lag) triples and lags >= 0; other inputs are not generated"]
