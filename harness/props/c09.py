"""C09 -- dispatcher = named estimator with the given settings, floored at zero."""
import itertools
import math
import re
import warnings

import numpy as np

import gen_tables
from common import num, unval

NAMES = ["gaussian", "kde", "kernel_density", "knn", "geometric_knn", "poisson"]
EXPECTED = {
    ("gaussian", True): ("gaussian_conditional_mutual_information", []),
    ("gaussian", False): ("gaussian_mutual_information", []),
    ("kde", True): ("kde_conditional_mutual_information", ["bandwidth", "kernel"]),
    ("kde", False): ("kde_mutual_information", ["bandwidth", "kernel"]),
    ("kernel_density", True): ("kde_conditional_mutual_information", ["bandwidth", "kernel"]),
    ("kernel_density", False): ("kde_mutual_information", ["bandwidth", "kernel"]),
    ("knn", True): ("knn_conditional_mutual_information", ["metric", "k"]),
    ("knn", False): ("knn_mutual_information", ["metric", "k"]),
    ("geometric_knn", True): ("geometric_knn_conditional_mutual_information", ["metric", "k"]),
    ("geometric_knn", False): ("geometric_knn_mutual_information", ["metric", "k"]),
    ("poisson", True): ("poisson_conditional_mutual_information", []),
    ("poisson", False): ("poisson_conditional_mutual_information", []),
}
SPIED = sorted({v[0] for v in EXPECTED.values()})


def same(a, b):
    a, b = float(a), float(b)
    return (math.isnan(a) and math.isnan(b)) or a == b


def check(run, driver):
    import importlib
    import inspect

    M = importlib.import_module("causationentropy.core.information.conditional_mutual_information")

    run.rule = (
        "cross product estimator name (5 + alias) x Z present/None x k x metric x bandwidth x kernel on random data: the dispatcher's "
        "value is compared bit-for-bit with max(0, direct call of the documented estimator with the SAME explicit settings); spies on the "
        "module-level estimator names record which settings reach the base estimator; planted nan/inf/negative returns; unknown names. "
        "Plus the AST-regenerated dispatch table checked by `decide` against tableOK. Non-trivial = settings differ from every default"
    )
    thorough = run.tier == "thorough"
    rng = run.rng
    # ---------------- translator obligations (regenerated from the current source)
    tabs, notes = gen_tables.generate()
    failing_entries = None
    if tabs.get("dispatch") is None:
        run.extra["translator"] = "UNTRANSLATABLE (" + "; ".join(notes) + ") -- the dispatcher no longer has a shape the AST translator recognises; the table obligation is not established on this run and the property is decided by the spy-based correspondence alone (DESIGN.md §2.4)"
    else:
        body = (
            "open CE.Dispatch in\n#eval (publicNames.flatMap fun n => [true, false].filterMap fun z => "
            "if entryOK Generated.tables n z then none else some (n, z))\n"
            "open CE.Dispatch in\n#eval (Generated.tables.elseRaises, Generated.tables.floorShape, Generated.tables.dispatch.all (fun b => b.1.all publicNames.contains))\n"
        )
        ok, out = gen_tables.obligation("ObC09", body)
        m = re.search(r"^\[(.*)\]\s*$", out, flags=re.M)
        m2 = re.search(r"^\((true|false), (true|false), (true|false)\)\s*$", out, flags=re.M)
        if not ok or m is None or m2 is None:
            run.oblige("ObC09 generated table elaborates", False, out)
        else:
            failing_entries = [(a, b == "true") for a, b in re.findall(r'\("([^"]+)", (true|false)\)', m.group(1))]
            run.oblige("ObC09 generated table elaborates", True)
            run.oblige("ObC09 final else raises ValueError (table)", m2.group(1) == "true")
            run.oblige("ObC09 floor shape `if isfinite: max(0.0, cmi) else cmi` (table)", m2.group(2) == "true")
            run.oblige("ObC09 no branch handles an undocumented name (table)", m2.group(3) == "true")
            skip = ", ".join(f'("{a}", {str(b).lower()})' for a, b in failing_entries)
            ok2, out2 = gen_tables.obligation("ObC09b", f"example : CE.Dispatch.tableOKExcept Generated.tables [{skip}] = true := by decide\n")
            run.oblige(f"ObC09 tableOK on all entries except {failing_entries} (decide)", ok2, out2 if not ok2 else "")
            run.extra["table_entries_failing_tableOK"] = failing_entries
    # ---------------- spy-based tie, independent of the AST
    real = {n: getattr(M, n) for n in SPIED}
    log = []

    def mk(name):
        sig = inspect.signature(real[name])

        def w(*a, **k):
            try:
                bound = sig.bind(*a, **k)
                explicit = {p: v for p, v in bound.arguments.items() if p not in ("X", "Y", "Z")}
            except TypeError:
                explicit = {"<bind-error>": True}
            log.append((name, explicit))
            return real[name](*a, **k)
        return w

    from common import call_form
    _form = [0]
    ks = [1, 2, 5, None]
    metrics = ["euclidean", "cityblock", "chebyshev"]
    bws = ["silverman", "scott", 0.5, 1, np.float32(0.75), np.int64(2)]      # (numeric bandwidths of any numeric type)
    kernels = ["gaussian", "epanechnikov"] if thorough else ["gaussian"]
    datasets = []
    for i in range(3 if thorough else 2):
        N = int(rng.integers(14, 22))
        X = rng.standard_normal((N, 1)); Y = X * 0.7 + rng.standard_normal((N, 1)); Z = rng.standard_normal((N, 1)) + 0.3 * Y
        datasets.append((X, Y, Z, False))
    # "for all data": integer-valued samples with many exact ties, and arguments of DIFFERENT dtypes (counts next to continuous
    # measurements, single next to double precision) -- handed unchanged to the dispatcher and to the named estimator
    X, Y, Z, _ = datasets[0]
    Xt, Yt, Zt = np.round(np.abs(X) * 3), np.round(np.abs(Y) * 3), np.round(np.abs(Z) * 3)
    datasets.append((Xt, Yt, Zt, True))
    datasets.append((Xt.astype(np.int64), Y.copy(), Z.astype(np.float32), True))
    datasets.append((X.astype(np.float32), Y.copy(), Zt.astype(np.int32), True))
    seen_fail = set()
    confirmed = set()
    for (X, Y, Z, raw) in datasets:
        N = len(X)
        Xc, Yc, Zc = np.round(np.abs(X) * 3), np.round(np.abs(Y) * 3), np.round(np.abs(Z) * 3)
        for name, zp in itertools.product(NAMES, (True, False)):
            efn, esettings = EXPECTED[(name, zp)]
            if name in ("knn", "geometric_knn"):
                combos = [dict(metric=m, k=(k if k else N - 1), bandwidth="silverman", kernel="gaussian") for m in metrics for k in ks]
                if name == "geometric_knn" and not thorough:
                    combos = combos[::3]
            elif name in ("kde", "kernel_density"):
                combos = [dict(metric="euclidean", k=3, bandwidth=b, kernel=kn) for b in bws for kn in kernels]
            else:
                combos = [dict(metric="cityblock", k=2, bandwidth="scott", kernel="gaussian")]
            if raw and len(combos) > 2 and not thorough:
                combos = combos[::2]
            for st in combos:
                data = (Xc, Yc, Zc) if (name == "poisson" and not raw) else (X, Y, Z)
                a = (data[0], data[1], data[2] if zp else None)
                for n_ in SPIED:
                    setattr(M, n_, mk(n_))
                del log[:]
                try:
                    with warnings.catch_warnings():
                        warnings.simplefilter("ignore")
                        _form[0] += 1      # every documented call form in turn
                        got = call_form(M.conditional_mutual_information, "conditional_mutual_information", _form[0], X=a[0], Y=a[1], Z=a[2], method=name, **st)
                except Exception as e:  # noqa
                    got = e
                finally:
                    for n_ in SPIED:
                        setattr(M, n_, real[n_])
                calls = list(log)
                with warnings.catch_warnings():
                    warnings.simplefilter("ignore")
                    try:
                        direct = real[efn](*(a if "conditional" in efn else a[:2]), **{p: st[p] for p in esettings})
                    except Exception as e:  # noqa
                        direct = e
                want = direct if isinstance(direct, Exception) else (max(0.0, direct) if np.isfinite(direct) else direct)
                defaults = {p: q.default for p, q in inspect.signature(real[efn]).parameters.items() if q.default is not inspect._empty}
                nontriv = all(st[p] != defaults.get(p) for p in esettings) and bool(esettings)
                case = {"method": name, "Z": "present" if zp else None, **st, "N": N}
                run.case("dispatch", [name, zp, st, N, float(data[0][0][0])], nontriv, sample={**case, "value": got if not isinstance(got, Exception) else repr(got)})
                run.traces += 1
                # which settings reached the base estimator?
                base_calls = [c for c in calls if c[0] == efn]
                dropped = []
                if base_calls:
                    explicit = base_calls[-1][1]
                    dropped = [p for p in esettings if p not in explicit or explicit[p] != st[p]]
                path = "Z given" if zp else "Z is None"
                if isinstance(got, Exception) or isinstance(want, Exception):
                    if type(got) is not type(want):
                        run.prop_fail("dispatcher raises where the named estimator does not (or vice versa)", case, {"estimator": name, "path": path}, [repr(got), repr(want)])
                    continue
                if not same(got, want):
                    confirmed.add((name, zp))
                    run.prop_fail(
                        "dispatcher value differs from max(0, named estimator with the given settings)", case,
                        {"estimator": name, "callee": efn, "path": path, "dropped": dropped or ["<value>"]},
                        {"dispatcher": got, "direct_with_settings": want, "settings_not_forwarded": dropped})
                elif dropped and nontriv:
                    seen_fail.add((name, zp, tuple(dropped)))
                if not base_calls and name != "poisson":
                    run.corr_fail("spy", case, f"call to {efn}", [c[0] for c in calls])
                if isinstance(got, float) and np.isfinite(got) and got < 0:
                    run.prop_fail("dispatcher returned a finite negative number", case, {"estimator": name, "path": path, "clause": "floor"}, got)
    # table says an entry is wrong but no input shows it (or the other way round): translator self-check
    if failing_entries is not None:
        for (nm, zp) in failing_entries:
            if (nm, zp) not in confirmed:
                run.corr_fail("table-vs-behaviour", {"entry": [nm, zp]}, "tableOK fails for this entry", "no input found on which the dispatcher differs")
        for (nm, zp) in confirmed:
            if (nm, zp) not in failing_entries:
                run.corr_fail("table-vs-behaviour", {"entry": [nm, zp]}, "table entry passes tableOK", "dispatcher differs from the direct evaluation")
    # ---------------- floor / pass-through with planted values
    planted = [float("nan"), float("inf"), float("-inf"), -3.5, -1e-300, -0.0, 0.0, 2.25, 1e300, -1000.0, 1e-300, 5e-324, 1e-12, 3e-9, 1e-6, -1e-9]
    reqs = []
    for v in planted:
        for name, zp in itertools.product(NAMES, (True, False)):
            efn = EXPECTED[(name, True)][0]   # the conditional function is always entered first
            setattr(M, efn, lambda *a, _v=v, **k: _v)
            try:
                got = M.conditional_mutual_information(np.zeros((5, 1)), np.zeros((5, 1)), np.zeros((5, 1)) if zp else None, method=name)
            finally:
                setattr(M, efn, real[efn])
            want = max(0.0, v) if np.isfinite(v) else v
            run.case("floor", [v if np.isfinite(v) else repr(v), name, zp], True, sample={"planted": repr(v), "method": name, "returned": repr(got)})
            if not same(got, want) or (np.isfinite(got) and got < 0):
                run.prop_fail("floor/pass-through: dispatcher does not return max(0, v) for finite v and v itself otherwise", {"planted": repr(v), "method": name, "Z": zp},
                              {"estimator": name, "clause": "floor"}, {"returned": repr(got), "want": repr(want)})
        reqs.append({"op": "floor", "v": num(v)})
    for v, r in zip(planted, driver.run(reqs)):
        mv = unval(r["ok"]) if "ok" in r else None
        want = max(0.0, v) if np.isfinite(v) else v
        if mv is None or not same(float(mv), want):
            run.corr_fail("floor-model", {"v": repr(v)}, r, want)
    # ---------------- history: the same array objects refilled in place between two dispatcher calls with identical settings
    #                  (a memo matched on object identity and settings answers the second call from the first)
    from common import reuse_check
    hist_methods = [("gaussian", {}), ("knn", {"k": 2, "metric": "euclidean"}), ("kde", {"bandwidth": "scott"}), ("kernel_density", {"bandwidth": 0.7}),
                    ("geometric_knn", {"k": 2, "metric": "euclidean"}), ("poisson", {})]
    for it in range(12 if run.tier == "thorough" else 6):
        name, kw = hist_methods[it % len(hist_methods)]
        N = int(run.rng.integers(14, 30)); zp = it % 2 == 0 or name == "geometric_knn"
        mk = (lambda: run.rng.poisson(3.0, size=(N, 3)).astype(float)) if name == "poisson" else (lambda: run.rng.standard_normal((N, 3)))
        A1, A2 = mk(), mk()
        A2[:, 1] += A2[:, 0]
        sp = lambda W: (W[:, :1], W[:, 1:2], W[:, 2:] if zp else None)
        run.case("history", [name, zp, N, float(A1[0, 0])], True)
        ok_ = reuse_check(run, f"dispatcher({name})", lambda x, y, z: float(M.conditional_mutual_information(x, y, z, method=name, **kw)), sp(A1), sp(A2), {"estimator": name, "clause": "value"})
        if ok_:
            # ... and the value on the refilled buffers is max(0, named estimator on what they hold now)
            bufs = tuple(None if a is None else np.array(a, copy=True) for a in sp(A1))
            M.conditional_mutual_information(*bufs, method=name, **kw)
            for b_, s_ in zip(bufs, sp(A2)):
                if b_ is not None:
                    b_[...] = s_
            got = float(M.conditional_mutual_information(*bufs, method=name, **kw))
            direct = {"gaussian": M.gaussian_conditional_mutual_information, "knn": M.knn_conditional_mutual_information, "kde": M.kde_conditional_mutual_information,
                      "kernel_density": M.kde_conditional_mutual_information, "geometric_knn": M.geometric_knn_conditional_mutual_information, "poisson": M.poisson_conditional_mutual_information}[name]
            v = float(direct(*(None if a is None else np.array(a, copy=True) for a in sp(A2)), **kw))
            want = max(0.0, v) if np.isfinite(v) else v
            if not same(got, want):
                run.prop_fail("dispatcher on refilled buffers is not max(0, named estimator on the data they hold now)", {"method": name, "Z": zp, "N": N, **kw},
                              {"estimator": name, "clause": "value", "history": "buffer_reuse"}, {"returned": repr(got), "want": repr(want)})
    # ---------------- unknown names
    for bad in ["", "KNN", "gauss", "kernel-density", "knn ", None, 3]:
        try:
            M.conditional_mutual_information(np.zeros((5, 1)), np.zeros((5, 1)), None, method=bad)
            run.prop_fail("unknown estimator name does not raise ValueError", {"method": repr(bad)}, {"clause": "unknown"})
        except ValueError:
            pass
        except Exception as e:  # noqa
            run.prop_fail("unknown estimator name raises something other than ValueError", {"method": repr(bad)}, {"clause": "unknown"}, repr(e))
        run.case("unknown", repr(bad), True)
    run.assumptions += [
        "translator harness/gen_tables.py (AST pattern matching) is trusted for the table obligations; it is cross-checked against the spied behaviour (table-vs-behaviour)",
        "the direct evaluation of the named estimator with explicit settings is the oracle for 'what the estimator produces'",
    ]
