"""C19 -- coupled logistic-map network stays inside the unit interval."""
from fractions import Fraction

import networkx as nx
import numpy as np

from common import close, mat, num, unval, vec


def check(run, driver):
    from common import ModuleEntryPoints
    S = ModuleEntryPoints("causationentropy.datasets.synthetic", "causationentropy.datasets")     # both public paths, in turn

    run.rule = (
        "logisic_dynamics(n,p,t,r,sigma,seed): default call, boundary values r in {0,4}, sigma in {0,1}, p in {0,1}, "
        "n in 1..30, t in 1..200, random seeds. Range check on every value; one-step exact replay of consecutive rows "
        "through the Lean model. Non-trivial = graph has an edge, sigma>0, r>0, t>=3"
    )
    thorough = run.tier == "thorough"
    # ---- translator: the map itself is regenerated from the CURRENT source and proved equal to the model's `logistic`
    #      (the function `logistic_mem` / `orbit_mem` are about) for all rationals, not on samples
    import gen_tables
    try:
        params, term = gen_tables.arithmetic_function(gen_tables.SYN, "logistic_map")
        if len(params) != 2:
            raise gen_tables.Untranslatable(f"logistic_map takes {params}")
        src = ("import CEModel.Synthetic\nimport Mathlib.Tactic.Ring\n/-! GENERATED from /repo by harness/gen_tables.py -- do not edit. -/\n"
               f"def Generated.logisticMap ({params[0]} {params[1]} : Rat) : Rat := {term}\n"
               f"example : ∀ {params[0]} {params[1]} : Rat, Generated.logisticMap {params[0]} {params[1]} = CE.Syn.logistic {params[1]} {params[0]} := by\n"
               f"  intro {params[0]} {params[1]}; unfold Generated.logisticMap CE.Syn.logistic; ring\n")
        ok, out = gen_tables.obligation_standalone("ObC19", src)
        run.oblige("ObC19 logistic_map regenerated from the source = model's logistic, for all rationals (ring)", ok, out if not ok else "")
    except gen_tables.Untranslatable as e:
        run.extra["translator"] = f"UNTRANSLATABLE ({e}) -- logistic_map is no longer a single arithmetic return; the obligation is not established on this run and the property is decided by the one-step replay and the range check alone"
    # ---- translator: the update statement of the time loop, by symbolic matrix algebra over the CURRENT source (transposes tracked),
    #      as a function of (sigma, f_i, (W f)_i); the model's stepRow -- the function step_mem / orbit_mem are about -- must be that function
    try:
        src = gen_tables.logistic_step_obligation_source()
        ok, out = gen_tables.obligation_standalone("ObC19b", src)
        run.oblige("ObC19b update statement of logisic_dynamics regenerated from the source (symbolic matrix algebra) = model's stepRow through the ROW-normalised matrix, for all sigma, f, rows (ring)", ok, out if not ok else "")
        run.extra["translator_step"] = "update statement translated"
    except gen_tables.Untranslatable as e:
        run.extra["translator_step"] = f"UNTRANSLATABLE ({e}) -- the update is outside the recognised shape; the obligation is not established on this run and the property is decided by the one-step replay and the range check alone"
    configs = [dict()]  # default call
    rng = run.rng
    for n in (1, 2, 3):
        for p in (0.0, 1.0):
            for r in (0.0, 4.0):
                for sigma in (0.0, 1.0):
                    configs.append(dict(n=n, p=p, t=12, r=r, sigma=sigma, seed=int(rng.integers(0, 1000))))
    configs += [dict(seed=0), dict(n=5, p=0.8, t=30, r=4.0, sigma=0.5, seed=0), dict(n=1, p=1.0, t=1, seed=0)]      # seed 0 is a seed like any other; t = 1
    configs += [dict(n=n_, p=p_, t=15, r=4.0, sigma=s_, seed=int(rng.integers(0, 1000))) for n_, p_, s_ in ((65, 0.1, 0.7), (100, 0.05, 1.0), (150, 0.03, 0.5), (257, 0.02, 0.9))]      # every network size
    # star-like / dense / sparse random
    for _ in range(400 if thorough else 90):
        configs.append(dict(
            n=int(rng.integers(1, 31)), p=float(rng.choice([0.0, 1.0, rng.random(), rng.random() * 0.3])),
            t=int(rng.integers(1, 201 if thorough else 80)), r=float(rng.choice([0.0, 4.0, 3.99, 4 * rng.random()])),
            sigma=float(rng.choice([0.0, 1.0, rng.random()])), seed=int(rng.integers(0, 10**6))))
    reqs, meta = [], []
    DOC_ORDER = ("n", "p", "t", "r", "sigma", "seed")     # the documented positional order of the public signature
    for ci, cfg in enumerate(configs):
        full = dict(n=20, p=0.1, t=100, r=3.99, sigma=0.1, seed=42)
        full.update(cfg)
        if ci % 3 == 1:        # positional call, leading arguments positional and the rest by keyword, or all by keyword: the same request
            XY, A = S.logisic_dynamics(*[full[k] for k in DOC_ORDER])
        elif ci % 3 == 2:
            cut = 1 + ci % 5
            XY, A = S.logisic_dynamics(*[full[k] for k in DOC_ORDER[:cut]], **{k: full[k] for k in DOC_ORDER[cut:]})
        else:
            XY, A = S.logisic_dynamics(**cfg)
        n, t = full["n"], full["t"]
        G = nx.erdos_renyi_graph(n, full["p"], seed=full["seed"])
        nontrivial = G.number_of_edges() > 0 and full["sigma"] > 0 and full["r"] > 0 and t >= 3
        run.case("range", cfg or {"default": True}, nontrivial, sample={"cfg": full, "min": float(np.nanmin(XY)) if XY.size else None, "max": float(np.nanmax(XY)) if XY.size else None})
        # --- the property itself, directly on the implementation
        if XY.shape != (t, n):
            run.prop_fail("series shape", full, {"clause": "shape"}, XY.shape)
        bad = ~np.isfinite(XY) | (XY < 0) | (XY > 1)
        if bad.any():
            i, j = map(int, np.argwhere(bad)[0])
            run.prop_fail("value outside [0,1] or not finite", full, {"clause": "range"}, {"t": i, "node": j, "value": repr(XY[i, j])})
            continue
        # --- correspondence: returned matrix vs model normalisation; one-step replay
        Adj = nx.to_numpy_array(G)
        meta.append(("norm", full, A, None))
        reqs.append({"op": "row_normalise", "A": mat(Adj)})
        steps = list(range(1, t))
        if len(steps) > 6:
            steps = sorted(set([1, 2, t - 1] + [int(s) for s in rng.choice(steps, 3)]))
        # M = row-normalised matrix = transpose of the returned (transposed) matrix
        for s in steps:
            meta.append(("step", full, XY[s], s))
            reqs.append({"op": "logistic_step", "r": num(full["r"]), "sigma": num(full["sigma"]), "M": mat(A.T), "x": vec(XY[s - 1])})
    # ---- history: the returned matrix belongs to the caller; editing it in place must not affect a later identical call
    for it in range(20 if thorough else 8):
        cfg = dict(n=int(rng.integers(2, 12)), p=float(rng.choice([1.0, 0.5, rng.random()])), t=int(rng.integers(3, 30)), r=float(rng.choice([4.0, 3.7])),
                   sigma=float(rng.choice([1.0, 0.5, rng.random()])), seed=int(rng.integers(0, 10**6)))
        X1, A1 = S.logisic_dynamics(**cfg)
        X1c, A1c = X1.copy(), A1.copy()
        A1[A1 > 0] = 1.0; A1 *= 3.0; X1[:] = 7.0
        X2, A2 = S.logisic_dynamics(**cfg)
        run.case("history", cfg, True)
        bad2 = ~np.isfinite(X2) | (X2 < 0) | (X2 > 1)
        if bad2.any():
            run.prop_fail("value outside [0,1] or not finite on a later identical call, after the caller edited the previously returned arrays in place", cfg, {"clause": "range", "history": True})
        elif not (np.array_equal(X2, X1c) and np.array_equal(A2, A1c)):
            run.corr_fail("history", cfg, "same series and matrix as the first call", "differs after the caller edited the returned arrays in place")
    resp = driver.run_sharded(reqs)
    for (kind, cfg, expect, s), r in zip(meta, resp):
        if "ok" not in r:
            run.corr_fail(kind, cfg, r, None, "driver error")
            continue
        if kind == "norm":
            M = [[unval(v) for v in row] for row in r["ok"]]
            impl = expect.T
            ok = all(close(float(impl[i][j]), M[i][j], 1e-15, 1e-14) for i in range(len(M)) for j in range(len(M)))
            if not ok:
                run.corr_fail("returned-matrix", cfg, "rowNormalise(erdos_renyi adjacency)^T", "returned matrix differs")
        else:
            row = [unval(v) for v in r["ok"]]
            ok = len(row) == len(expect) and all(close(float(e), m, 1e-12) for e, m in zip(expect, row))
            run.traces += 1
            if not ok:
                run.corr_fail("one-step", {"cfg": cfg, "t": s}, [float(m) for m in row], [float(e) for e in expect])
    run.assumptions += [
        "theorems are over exact rationals; rounding could in principle move a value one ulp outside [0,1] -- the direct range check on the float output covers that",
        "nx.erdos_renyi_graph(n,p,seed) is taken as the graph generator (trusted); the model receives its adjacency",
    ]
