"""C17 -- TPR/FPR and AUC equal their confusion-matrix and trapezoid definitions."""
import itertools
from fractions import Fraction

import numpy as np

from common import close, mat, unval, vec


def _definition(A, B):
    """Independent statement of the property (pure Python counting over off-diagonal pairs)."""
    n = len(A)
    tp = fn = fp = tn = 0
    for i in range(n):
        for j in range(n):
            if i == j:
                continue
            a, b = int(A[i][j]), int(B[i][j])
            tp += a == 1 and b == 1
            fn += a == 1 and b == 0
            fp += a == 0 and b == 1
            tn += a == 0 and b == 0
    tpr = Fraction(tp, tp + fn) if tp + fn > 0 else Fraction(1)
    fpr = Fraction(fp, fp + tn) if fp + tn > 0 else Fraction(0)
    return tpr, fpr, (tp, fn, fp, tn)


def _zero_diag_mats(n, bitsA, bitsB):
    A = np.zeros((n, n), dtype=np.int64)
    B = np.zeros((n, n), dtype=np.int64)
    k = 0
    for i in range(n):
        for j in range(n):
            if i != j:
                A[i, j] = (bitsA >> k) & 1
                B[i, j] = (bitsB >> k) & 1
                k += 1
    return A, B


def check(run, driver):
    from common import ModuleEntryPoints
    stats = ModuleEntryPoints("causationentropy.core.stats")

    run.rule = (
        "pairs of binary zero-diagonal matrices: exhaustive for n<=3, random up to n=12 (int64 and float64); "
        "random ROC polylines with repeated x. Non-trivial = truth has both edges and non-edges and A != B "
        "(matrices) / at least 3 points (polylines); distinct by content hash"
    )
    thorough = run.tier == "thorough"
    # ---- translator: Compute_TPR_FPR is regenerated from the CURRENT source as a Lean function of (n, flattened entry pairs)
    #      and proved equal to the model's `tprFpr` (the function all C17 theorems are about) for ALL n and ALL matrices
    import gen_tables
    try:
        src = gen_tables.tprfpr_obligation_source()
        ok, out = gen_tables.obligation_standalone("ObC17", src)
        run.oblige("ObC17 Compute_TPR_FPR regenerated from the source = model's tprFpr, for all n and all entry lists (rfl / field arithmetic)", ok, out if not ok else "")
        run.extra["translator"] = "Compute_TPR_FPR translated (straight-line NumPy subset -> Lean over Rat)"
    except gen_tables.Untranslatable as e:
        run.extra["translator"] = f"UNTRANSLATABLE ({e}) -- Compute_TPR_FPR is outside the straight-line subset; the obligation is not established on this run and the property is decided by the exhaustive/sampled comparison with the definition and the model alone"
    cases = []  # (suite, A, B, dtype)
    for n in (1, 2, 3):
        m = n * (n - 1)
        for a in range(2**m):
            for b in range(2**m):
                A, B = _zero_diag_mats(n, a, b)
                cases.append(("exhaustive-n<=3", A, B))
    run.exhaustive = True
    nrand = 3000 if thorough else 600
    for _ in range(nrand):
        n = int(run.rng.integers(2, 13))
        dens = run.rng.choice([0.0, 0.1, 0.5, 0.9, 1.0, float(run.rng.random())])
        A = (run.rng.random((n, n)) < dens).astype(np.int64)
        kind = run.rng.integers(0, 4)
        if kind == 0:
            B = A.copy()
        elif kind == 1:
            B = 1 - A
        else:
            B = (run.rng.random((n, n)) < run.rng.random()).astype(np.int64)
        np.fill_diagonal(A, 0)
        np.fill_diagonal(B, 0)
        if run.rng.random() < 0.5:
            A, B = A.astype(np.float64), B.astype(np.float64)
        # the same matrices in other storage layouts (column-major copy, transposed view of the transpose, strided view), independently for A and B
        lay = lambda M_, t: [M_, np.asfortranarray(M_), np.ascontiguousarray(M_.T).T, np.repeat(np.repeat(M_, 2, axis=0), 2, axis=1)[::2, ::2]][t]
        A, B = lay(A, int(run.rng.integers(0, 4))), lay(B, int(run.rng.integers(0, 4)))
        cases.append(("random-n<=12", A, B))

    reqs, impl = [], []
    for suite, A, B in cases:
        A0, B0 = A.copy(), B.copy()
        tpr, fpr = stats.Compute_TPR_FPR(A, B)      # (A, B keep their storage layout; A0, B0 are C-ordered copies of the same matrices)
        if not (np.array_equal(A, A0) and np.array_equal(B, B0)):
            run.prop_fail("argument modified", {"A": A0, "B": B0})
        impl.append((float(tpr), float(fpr)))
        reqs.append({"op": "tpr_fpr", "A": mat(A), "B": mat(B)})
    resp = driver.run_sharded(reqs)
    for (suite, A, B), (tpr, fpr), r in zip(cases, impl, resp):
        dt, df, counts = _definition(A, B)
        tp, fn, fp, tn = counts
        nontrivial = (tp + fn > 0) and (fp + tn > 0) and not np.array_equal(A, B)
        run.case(suite, [A.tolist(), B.tolist(), str(A.dtype)], nontrivial, sample={"A": A, "B": B, "impl": [tpr, fpr]})
        case = {"A": A, "B": B, "dtype": str(A.dtype)}
        ok_def = close(tpr, dt, 1e-12) and close(fpr, df, 1e-12) and 0 <= tpr <= 1 and 0 <= fpr <= 1
        if not ok_def:
            run.prop_fail(
                "TPR/FPR differ from TP/(TP+FN), FP/(FP+TN)", case, {"fn": "Compute_TPR_FPR"},
                {"impl": [tpr, fpr], "definition": [dt, df], "counts": counts},
            )
        if "ok" not in r:
            run.corr_fail(suite, case, r, [tpr, fpr], "driver error")
            continue
        mt, mf = unval(r["ok"]["tpr"]), unval(r["ok"]["fpr"])
        if not (close(tpr, mt, 1e-12) and close(fpr, mf, 1e-12)):
            run.corr_fail(suite, case, [mt, mf], [tpr, fpr])
        if (mt, mf) != (dt, df):
            # the model itself must agree with the definition exactly (this is what the theorems say)
            run.corr_fail(suite, case, [mt, mf], [dt, df], "model vs definition")
        run.traces += 1
        if np.array_equal(A, B) and (tpr, fpr) != (1.0, 0.0):
            run.prop_fail("identical matrices must give (1,0)", case, {"fn": "Compute_TPR_FPR"}, [tpr, fpr])

    # ---- history: same matrix objects refilled in place between two calls
    from common import reuse_check
    for it in range(20 if thorough else 8):
        n = int(run.rng.integers(2, 9))
        mk = lambda: tuple(np.where(np.eye(n) > 0, 0, (run.rng.random((n, n)) < run.rng.random()).astype(np.int64)) for _ in range(2))
        first, second = mk(), mk()
        if it % 2:
            first, second = tuple(a.astype(float) for a in first), tuple(a.astype(float) for a in second)
        run.case("history", [n, first[0].tolist(), second[1].tolist()], True)
        reuse_check(run, "Compute_TPR_FPR", lambda a, b: tuple(float(v) for v in stats.Compute_TPR_FPR(a, b)), first, second, {"fn": "Compute_TPR_FPR", "clause": "purity"})
    # ---- AUC
    polys = []
    npoly = 2000 if thorough else 400
    for _ in range(npoly):
        m = int(run.rng.integers(2, 51))
        xs = np.sort(run.rng.random(m))
        if run.rng.random() < 0.5:  # repeated x
            idx = run.rng.integers(0, m, size=m // 3 + 1)
            xs[idx] = xs[(idx + 1) % m]
            xs = np.sort(xs)
        ys = np.sort(run.rng.random(m))
        xs[0], xs[-1], ys[0], ys[-1] = 0.0, 1.0, 0.0, 1.0
        polys.append((ys, xs))
    for _ in range(30 if thorough else 8):       # long staircases: many points share an x value
        m = int(rng.integers(300, 1200)) if False else int(run.rng.integers(300, 1200))
        levels = int(run.rng.integers(2, 6))
        xs = np.sort(run.rng.integers(0, levels + 1, size=m) / levels)
        ys = np.sort(run.rng.random(m))
        xs[0], xs[-1], ys[0], ys[-1] = 0.0, 1.0, 0.0, 1.0
        polys.append((ys, xs))
    polys.append((np.array([0.0, 1.0, 1.0]), np.array([0.0, 0.0, 1.0])))
    polys.append((np.array([0.0, 0.0, 1.0]), np.array([0.0, 1.0, 1.0])))
    polys.append((np.array([0.0, 1.0]), np.array([0.0, 1.0])))
    reqs = [{"op": "auc", "y": vec(ys), "x": vec(xs)} for ys, xs in polys]
    resp = driver.run_sharded(reqs)
    for (ys, xs), r in zip(polys, resp):
        val = float(stats.auc(ys, xs))
        run.case("auc-polyline", [ys.tolist(), xs.tolist()], len(xs) >= 3, sample={"y": ys[:6], "x": xs[:6], "impl": val})
        ref = sum((Fraction(xs[i + 1]) - Fraction(xs[i])) * (Fraction(ys[i]) + Fraction(ys[i + 1])) / 2 for i in range(len(xs) - 1))
        case = {"y": ys, "x": xs}
        if not close(val, ref, 1e-12) or not (-1e-12 <= val <= 1 + 1e-12):
            run.prop_fail("AUC differs from trapezoid area / leaves [0,1]", case, {"fn": "auc"}, {"impl": val, "trapezoid": ref})
        if "ok" not in r or unval(r["ok"]) != ref:
            run.corr_fail("auc-polyline", case, r, ref, "model vs trapezoid definition")
        run.traces += 1
    run.assumptions += [
        "dtype is not quantified by the property: int64 and float64 matrices are in scope (uint8 wraps, bool raises -- outside the claim)",
        "np.trapezoid / np.sum float rounding is covered by the 1e-12 tolerance, not by the theorems (which are over Q)",
    ]
