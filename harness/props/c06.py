"""C06 -- discovered graph is well-formed; bad requests are rejected; input untouched."""
import math
import warnings

import networkx as nx
import numpy as np
import pandas as pd

import gen_tables
from common import quiet
from props import disc_common as DC

METHODS = ["standard", "alternative", "information_lasso", "lasso"]
ESTIMATORS = ["gaussian", "knn", "kde", "geometric_knn", "poisson"]


def well_formed(run, case, G, names, L, nsh, sig):
    """the property's statement about the returned object"""
    bad = lambda what, d=None: run.prop_fail(what, case, sig, d)
    if type(G) is not nx.MultiDiGraph:
        bad("result is not a networkx.MultiDiGraph", type(G).__name__); return
    if list(G.nodes()) != list(names):
        bad("nodes are not exactly the input variables in input order", {"nodes": list(map(repr, G.nodes())), "want": list(map(repr, names))}); return
    seen = set()
    for u, v, d in G.edges(data=True):
        if u not in names or v not in names:
            bad("edge endpoint is not an input variable", (repr(u), repr(v))); return
        lag, c, p = d.get("lag"), d.get("cmi"), d.get("p_value")
        if not isinstance(lag, (int, np.integer)) or isinstance(lag, bool) or not (1 <= lag <= L):
            bad("edge lag is not an integer in 1..max_lag", {"edge": (repr(u), repr(v)), "lag": repr(lag)}); return
        try:
            cf = float(c)
        except Exception:  # noqa
            bad("edge cmi is not a real number", repr(c)); return
        if math.isfinite(cf) and cf < 0:
            bad("edge cmi is a finite negative number", {"edge": (repr(u), repr(v), lag), "cmi": cf}); return
        try:
            pf = float(p)
        except Exception:  # noqa
            bad("edge p_value missing / not a number", repr(p)); return
        if not (0.0 <= pf <= 1.0) or abs(pf * nsh - round(pf * nsh)) > 1e-9:
            bad("edge p_value is not a multiple of 1/n_shuffles in [0,1]", {"edge": (repr(u), repr(v), lag), "p_value": pf, "n_shuffles": nsh}); return
        key = (u, v, int(lag))
        if key in seen:
            bad("a (source, target, lag) triple occurs twice", (repr(u), repr(v), lag)); return
        seen.add(key)


def snapshot(data):
    if isinstance(data, pd.DataFrame):
        return ("df", data.values.tobytes(), list(data.columns), list(data.index), str(data.values.dtype), data.shape)
    a = np.asarray(data)
    return ("nd", a.tobytes(), str(a.dtype), a.shape, a.flags["C_CONTIGUOUS"], a.flags["F_CONTIGUOUS"])


def check(run, driver):
    from common import EntryPoints
    discover_network = EntryPoints("discover_network", "causationentropy.core.discovery", "causationentropy.core", "causationentropy")   # every public path, in turn
    run.rule = (
        "real discover_network on ndarray / DataFrame (string, integer and mixed labels), float and integer dtypes, constant and duplicated "
        "columns, all methods x estimator names with a scripted rational estimator (bulk, replayed through the Lean model) and the real "
        "estimators on small data with T - max_lag >= k + 2; error requests (unsupported method / estimator, T <= max_lag + 2 boundary); "
        "byte comparison of the caller's object before/after. Non-trivial = at least one edge; distinct by parameter hash"
    )
    thorough = run.tier == "thorough"
    rng = run.rng
    warnings.simplefilter("ignore")
    # ---- translator obligation: guard lists / guard / seed from the AST
    tabs, notes = gen_tables.generate()
    d = tabs.get("discovery")
    if not d or d["methods"] is None or d["informations"] is None:
        run.extra["translator"] = "UNTRANSLATABLE (" + "; ".join(notes) + ") -- the source no longer has a shape the AST translator recognises; the table obligation is not established on this run and the property is decided by the correspondence alone (DESIGN.md §2.4)"
    else:
        body = ("example : Generated.methods.isPerm [\"standard\", \"alternative\", \"information_lasso\", \"lasso\"] = true := by decide\n"
                "example : ∀ m, (CE.Disc.parseMethod m).isSome = Generated.methods.contains m := by\n"
                "  intro m; by_cases h1 : m = \"standard\" <;> by_cases h2 : m = \"alternative\" <;> by_cases h3 : m = \"information_lasso\" <;> by_cases h4 : m = \"lasso\" <;> simp_all [CE.Disc.parseMethod, Generated.methods]\n"
                "example : Generated.informations.isPerm CE.Disc.supportedInformation = true := by decide\n")
        src = (gen_tables.GEN / "Tables.lean").read_text()
        f = gen_tables.GEN / "ObC06.lean"
        f.write_text("import CEModel.Discovery\n" + src + "\n" + body)
        rc, out = gen_tables.lean_file(f)
        ok = rc == 0 and "error" not in out
        run.oblige("ObC06 generated method/estimator lists = model's (decide)", ok, out[-400:] if not ok else "")
        if d["guard"] == "T <= max_lag + 2":
            run.oblige("ObC06 length guard is `T <= max_lag + 2` raising ValueError (AST)", True)
        else:
            run.extra["translator_guard"] = f"length guard not recognised textually ({d['guard']!r}); decided by the boundary enumeration T = max_lag .. max_lag+4 below"
    reqs, meta = [], []
    lreqs, lmeta = [], []
    label_sets = [None, "str", "int", "mixed"]
    count = 0
    for it in range(160 if thorough else 56):
        n = int(rng.integers(1, 5)); L = int(rng.integers(1, 4)); T = L + 3 + int(rng.integers(0, 12))
        method = METHODS[it % 4]; info = ESTIMATORS[(it // 4) % 5]
        kind = it % 7
        if it % 28 == 20:      # wide plain arrays: more than ten variables, so that default labels have two digits (X0 .. X10, X11, ...)
            n = int(rng.integers(11, 14)); L = 1; T = L + 3 + int(rng.integers(0, 6))
        base = rng.integers(0, 40, size=(T, n))
        if kind == 5 and it % 4 in (0, 1):          # a column riding on a huge offset (epoch seconds, absolute pressure): 1.7e9 +- a few units
            base[:, 0] += 1_700_000_000
        if kind == 1 and n >= 2:
            base[:, 1] = base[:, 0]                      # duplicated column
        if kind == 2:
            base[:, 0] = 7                               # constant column
        dtype = [np.float64, np.int64, np.int32, np.float32][it % 4]
        arr = base.astype(dtype)
        lab = label_sets[it % 4]
        if lab is None:
            data = np.asfortranarray(arr) if it % 8 == 4 else arr
            names = [f"X{i}" for i in range(n)]
        else:
            cols = {"str": [f"v{chr(97 + i)}" for i in range(n)], "int": [10 * (n - i) for i in range(n)], "mixed": [["a", 3, (1, 2), 2.5][i] for i in range(n)]}[lab]
            data = pd.DataFrame(arr, columns=pd.Index(cols, dtype=object) if lab == "mixed" else cols, index=np.arange(T)[::-1])
            names = cols
        levels = int(rng.choice([2, 8, 1024])); salt = int(rng.integers(0, 1000)); nan_own = bool(it % 3 == 0)
        af, ab = float(rng.choice([0.125, 0.25, 0.5])), float(rng.choice([0.0625, 0.25, 0.5]))
        nsh = int(rng.integers(2, 10))
        before = snapshot(data)
        o = DC.observe(data, DC.ScriptedEstimator(levels, salt, nan_own), method=method, information=info, max_lag=L, alpha_forward=af, alpha_backward=ab, n_shuffles=nsh)
        case = {"n": n, "max_lag": L, "T": T, "method": method, "information": info, "dtype": np.dtype(dtype).name, "labels": lab, "kind": kind,
                "alpha_forward": af, "alpha_backward": ab, "n_shuffles": nsh, "data": base, "estimator_script": {"levels": levels, "salt": salt, "nan_own": nan_own}}
        if snapshot(data) != before:
            run.prop_fail("caller's data object modified", case, {"clause": "purity"})
        if "error" in o:
            run.prop_fail("valid request rejected", case, {"clause": "rejects"}, o["error"]); continue
        edges = DC.graph_edges(o["G"])
        run.case("scripted", [n, L, T, method, info, np.dtype(dtype).name, lab, kind, levels, salt], len(edges) >= 1, sample={k: case[k] for k in case if k != "data"} | {"edges": len(edges)})
        run.branch(f"{method}")
        well_formed(run, case, o["G"], names, L, nsh, {"clause": "well_formed"})
        # range predicate of the LASSO oracle (hypothesis `LassoOK` of the Lean theorems): ascending, duplicate-free, in bounds
        for sel in o["lasso"]:
            if any(not (0 <= c < n * L) for c in sel) or any(a >= b for a, b in zip(sel, sel[1:])):
                run.corr_fail("lasso-range", case, "strictly ascending column ids in [0, n*max_lag)", sel, "LASSO selection outside the oracle's range predicate")
        # the selection as a function of the fitted coefficients (model: selOfCoef / lassoUsesLarsIC; theorem lassoOK_of_coef)
        if method in ("lasso", "information_lasso") and len(o.get("fits", [])) == len(o["lasso"]) == n:
            for (cls, shp, coef), sel in zip(o["fits"], o["lasso"]):
                lreqs.append({"op": "sel_of_coef", "coef": [DC.num(float(c)) for c in coef], "rows": int(shp[0]), "ncols": int(shp[1])})
                lmeta.append((case, cls, sel, len(coef), n * L))
        elif method in ("lasso", "information_lasso"):
            run.skip("LASSO fits not observable through discovery.Lasso / discovery.LassoLarsIC (selection still checked against the oracle's range predicate)")
        meta.append((case, o, names))
        reqs.append(DC.model_request(base.astype(float), n, method, info, L, af, ab, nsh, o["perms"], o["lasso"], levels, salt, nan_own))
    for (case, o, names), r in zip(meta, driver.run_sharded(reqs, shards=16)):
        if "ok" not in r:
            run.corr_fail("replay", case, r, None, "driver error"); continue
        DC.compare_with_model(run, "replay", case, o, r["ok"], names)
        run.traces += 1
    for (case, cls, sel, ncoef, want_len), r in zip(lmeta, driver.run(lreqs)):
        if "ok" not in r:
            run.corr_fail("lasso-selection", case, r, None, "driver error"); continue
        m = r["ok"]
        if m["sel"] != sel or (cls == "LassoLarsIC") != m["lars"] or ncoef != want_len:
            run.corr_fail("lasso-selection", case, {"sel": m["sel"], "LassoLarsIC": m["lars"], "coef_len": want_len}, {"sel": sel, "class": cls, "coef_len": ncoef},
                          "LASSO selection is not `where(coef != 0)` of the fit chosen by samples > predictors + 1")
        run.traces += 1
    # ---- real estimators (small sizes respecting T - L >= k + 2)
    for it in range(30 if thorough else 10):
        info = ESTIMATORS[it % 5]; method = METHODS[(it // 5 + it) % 4]
        n = int(rng.integers(1, 4)); L = int(rng.integers(1, 3)); k = int(rng.integers(1, 4)); T = L + k + 2 + int(rng.integers(6, 20))
        arr = rng.poisson(3.0, size=(T, n)).astype(float) if info == "poisson" else rng.standard_normal((T, n))
        if n >= 2:
            arr[1:, 1] += 0.9 * arr[:-1, 0] if info != "poisson" else rng.poisson(1.5 * arr[:-1, 0])
        if it % 4 == 3 and info in ("gaussian", "kde") and n >= 2:
            arr[:, 1] = arr[:, 0]
        data = pd.DataFrame(arr, columns=[f"s{i}" for i in range(n)]) if it % 2 else arr
        names = [f"s{i}" for i in range(n)] if it % 2 else [f"X{i}" for i in range(n)]
        nsh = 8
        before = snapshot(data)
        try:
            with quiet():
                G = discover_network(data, method=method, information=info, max_lag=L, n_shuffles=nsh, k_means=k, alpha_forward=0.1, alpha_backward=0.1)
        except Exception as e:  # noqa
            run.prop_fail("valid request raises", {"information": info, "method": method, "n": n, "max_lag": L, "T": T, "k_means": k, "data": arr}, {"clause": "total", "estimator": info}, repr(e)); continue
        case = {"information": info, "method": method, "n": n, "max_lag": L, "T": T, "k_means": k, "n_shuffles": nsh, "data": arr}
        run.case("real", [info, method, n, L, T, k, float(arr[0, 0])], G.number_of_edges() >= 1, sample={k_: case[k_] for k_ in case if k_ != "data"} | {"edges": G.number_of_edges()})
        if snapshot(data) != before:
            run.prop_fail("caller's data object modified", case, {"clause": "purity", "estimator": info})
        well_formed(run, case, G, names, L, nsh, {"clause": "well_formed", "estimator": info})
    # ---- several parents per target under the neighbour-based estimators (their raw conditional estimates are often negative:
    #      the reported cmi must still never be a finite negative number), LASSO selections so that parents exist
    for it in range(20 if thorough else 8):
        info = ["geometric_knn", "geometric_knn", "geometric_knn", "knn"][it % 4]; method = ["lasso", "information_lasso"][it % 2]
        n, L, T = 3, 2, int(rng.integers(26, 34))
        arr = rng.standard_normal((T, n))
        arr[1:, 1] += 0.6 * arr[:-1, 0] + 0.5 * arr[:-1, 2]; arr[2:, 0] += 0.5 * arr[:-2, 1] + 0.4 * arr[:-2, 2]
        names = [f"X{i}" for i in range(n)]
        case = {"information": info, "method": method, "n": n, "max_lag": L, "T": T, "k_means": 2, "n_shuffles": 3, "data": arr}
        try:
            with quiet():
                G = discover_network(arr.copy(), method=method, information=info, max_lag=L, n_shuffles=3, k_means=2)
        except Exception as e:  # noqa
            run.prop_fail("valid request raises", case, {"clause": "total", "estimator": info}, repr(e)); continue
        multi = max([G.in_degree(v) for v in G.nodes()] + [0])
        run.case("real-multi-parent", [info, method, T, float(arr[0, 0])], multi >= 2, sample={k_: case[k_] for k_ in case if k_ != "data"} | {"edges": G.number_of_edges(), "max_parents": multi})
        well_formed(run, case, G, names, L, 3, {"clause": "well_formed", "estimator": info})
    # ---- flat (uniform) data under the kernel-density estimator: its raw mutual-information estimates are negative there, also for a
    #      target with ONE parent (empty conditioning set); whatever path the value takes, the reported cmi is never a finite negative number
    for it in range(18 if thorough else 8):
        method = ["lasso", "information_lasso", "alternative", "standard"][it % 4]
        n, L, T = int(rng.integers(2, 4)), 1, int(rng.integers(24, 40))
        arr = rng.uniform(0, 1, size=(T, n))
        arr[1:, 1] = 0.8 * arr[1:, 1] + 0.2 * arr[:-1, 0]
        names = [f"X{i}" for i in range(n)]
        case = {"information": "kde", "method": method, "n": n, "max_lag": L, "T": T, "n_shuffles": 4, "data": arr, "data_kind": "uniform"}
        before = snapshot(arr)
        try:
            with quiet():
                G = discover_network(arr, method=method, information="kde", max_lag=L, n_shuffles=4, alpha_forward=0.3, alpha_backward=0.3)
        except Exception as e:  # noqa
            run.prop_fail("valid request raises", case, {"clause": "total", "estimator": "kde"}, repr(e)); continue
        single = sum(1 for v in G.nodes() if G.in_degree(v) == 1)
        run.case("real-kde-flat", [method, n, T, float(arr[0, 0])], single >= 1, sample={k_: case[k_] for k_ in case if k_ != "data"} | {"edges": G.number_of_edges(), "single_parent_targets": single})
        if snapshot(arr) != before:
            run.prop_fail("caller's data object modified", case, {"clause": "purity", "estimator": "kde"})
        well_formed(run, case, G, names, L, 4, {"clause": "well_formed", "estimator": "kde"})
    # ---- rejections
    good = rng.standard_normal((30, 2))
    for m in ["Standard", "", "pcmci", None, "lasso ", 3]:
        run.case("reject-method", repr(m), True)
        try:
            with quiet():
                discover_network(good, method=m)
            run.prop_fail("unsupported method does not raise NotImplementedError", {"method": repr(m)}, {"clause": "rejects"})
        except NotImplementedError:
            pass
        except Exception as e:  # noqa
            run.prop_fail("unsupported method raises something other than NotImplementedError", {"method": repr(m)}, {"clause": "rejects"}, repr(e))
    for inf in ["kernel_density", "KNN", "", "mi", None]:
        run.case("reject-information", repr(inf), True)
        try:
            with quiet():
                discover_network(good, information=inf)
            run.prop_fail("unsupported estimator name does not raise NotImplementedError", {"information": repr(inf)}, {"clause": "rejects"})
        except NotImplementedError:
            pass
        except Exception as e:  # noqa
            run.prop_fail("unsupported estimator name raises something other than NotImplementedError", {"information": repr(inf)}, {"clause": "rejects"}, repr(e))
    for L in range(1, 6):
        for T in range(max(1, L), L + 5):
            arr = rng.standard_normal((T, 2))
            for data in (arr, pd.DataFrame(arr, columns=["a", "b"])):
                run.case("reject-length", [L, T, isinstance(data, pd.DataFrame)], True)
                est = DC.ScriptedEstimator(4, 1, False)
                o = DC.observe(DC.coded_series(T, 2) if not isinstance(data, pd.DataFrame) else pd.DataFrame(DC.coded_series(T, 2), columns=["a", "b"]), est,
                               method="standard", information="gaussian", max_lag=L, n_shuffles=3, alpha_forward=0.25, alpha_backward=0.25)
                short = T <= L + 2
                if short and o.get("error") != "ValueError":
                    run.prop_fail("series with T <= max_lag + 2 does not raise ValueError", {"T": T, "max_lag": L}, {"clause": "rejects"}, o.get("error", "returned a graph"))
                if not short and "error" in o:
                    run.prop_fail("series with T > max_lag + 2 rejected", {"T": T, "max_lag": L}, {"clause": "rejects"}, o["error"])
    run.assumptions += [
        "data-frame column labels are assumed distinct",
        "node naming and 'input untouched' are runtime facts checked here by direct comparison, not theorems",
        "for the neighbour-based real estimators the aligned window holds at least k+2 samples (property's precondition)",
    ]
