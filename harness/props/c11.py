"""C11 -- kNN and KDE estimators compute their documented formulas."""
import warnings
from fractions import Fraction

import numpy as np

from common import b2f, f2b, mat, unval

METRICS = ["euclidean", "cityblock", "chebyshev"]


def fmat(a):
    return [[{"b": f2b(float(v))} for v in row] for row in a]


def check(run, driver):
    from causationentropy.core.information.conditional_mutual_information import conditional_mutual_information as dispatcher
    from common import EntryPoints as _EP     # the star re-exports of causationentropy.core.information are public paths too
    dispatcher = _EP("conditional_mutual_information", "causationentropy.core.information.conditional_mutual_information", "causationentropy.core.information")
    from causationentropy.core.information.conditional_mutual_information import kde_conditional_mutual_information, knn_conditional_mutual_information
    from common import EntryPoints as _EP     # the star re-exports of causationentropy.core.information are public paths too
    kde_conditional_mutual_information = _EP("kde_conditional_mutual_information", "causationentropy.core.information.conditional_mutual_information", "causationentropy.core.information")
    knn_conditional_mutual_information = _EP("knn_conditional_mutual_information", "causationentropy.core.information.conditional_mutual_information", "causationentropy.core.information")
    from causationentropy.core.information.entropy import kde_entropy
    from common import EntryPoints as _EP     # the star re-exports of causationentropy.core.information are public paths too
    kde_entropy = _EP("kde_entropy", "causationentropy.core.information.entropy", "causationentropy.core.information")
    from causationentropy.core.information.mutual_information import kde_mutual_information, knn_mutual_information
    from common import EntryPoints as _EP     # the star re-exports of causationentropy.core.information are public paths too
    kde_mutual_information = _EP("kde_mutual_information", "causationentropy.core.information.mutual_information", "causationentropy.core.information")
    knn_mutual_information = _EP("knn_mutual_information", "causationentropy.core.information.mutual_information", "causationentropy.core.information")

    run.rule = (
        "tie-free continuous samples: N in 8..60 (quick: <=32), dims 1..3 per block, k in 1..min(10,N-1), three metrics, with and without Z; "
        "KDE: bandwidth in {silverman, scott, numbers in [0.05,2]}, Gaussian kernel, entropy/MI/CMI. kNN compared with the exact rational "
        "value of the Lean model (brute-force declarative spec = code-shaped model is also checked); near-tie cases (relative key gap < 1e-12) "
        "are skipped and counted. Non-trivial = k>=2 or dims>=2 (kNN); N>=10 (KDE); distinct by content hash"
    )
    from common import call_form
    thorough = run.tier == "thorough"
    # ---- translator: radius construction (whole row sorted, index k), strict counts minus one and the digamma formula of BOTH kNN estimators
    #      are read off the CURRENT source; the formulas become Lean terms in an arbitrary psi and must equal the model's knnMIψ / knnCMIψ
    #      (the functions psi_free_* / code_eq_spec_* are about) for all psi, metrics, k and samples
    import gen_tables
    try:
        src = gen_tables.knn_obligation_source()
        ok, out = gen_tables.obligation_standalone("ObC11", src)
        run.oblige("ObC11 KSG formulas of knn_mutual_information / knn_conditional_mutual_information regenerated from the source = the model's knnMIψ / knnCMIψ, for all psi, metrics, k, samples (ring)", ok, out if not ok else "")
        run.extra["translator"] = "kNN estimators translated (radius / counts recognised, formula regenerated)"
    except gen_tables.Untranslatable as e:
        run.extra["translator"] = f"UNTRANSLATABLE ({e}) -- outside the recognised shape; the obligation is not established on this run and the property is decided by the exact-rational comparison alone"
    rng = run.rng
    warnings.simplefilter("ignore")
    reqs, meta = [], []
    for it in range(260 if thorough else 90):
        N = int(rng.integers(8, 61 if thorough else 33))
        dx, dy = int(rng.integers(1, 4)), int(rng.integers(1, 4))
        dz = int(rng.integers(1, 4)) if it % 2 else 0
        k = int(rng.integers(1, min(10, N - 1) + 1))
        if it in (8, 26):       # samples of a few hundred points (both paths: 8 has no conditioning set, 26 ... see dz), sizes that are not round numbers (blocked / batched evaluation lives there)
            N = [257, 300][it == 25] if not thorough else int(rng.choice([257, 300, 513, 600]))
            dx = dy = 1; dz = 0 if it == 8 else 1; k = int(rng.integers(1, 6))
        if it % 9 == 4:       # the largest admissible neighbour count, k = N - 1 (small samples), on both paths and all metrics
            N = int(rng.integers(4, 11)); k = N - 1
        metric = METRICS[it % 3]
        mix = rng.standard_normal((dx + dy + dz, dx + dy + dz)) * (it % 4 != 0) + np.eye(dx + dy + dz)
        W = rng.standard_normal((N, dx + dy + dz)) @ mix * float(10 ** rng.uniform(-2, 2))
        if it % 11 == 7:    # data recorded in very small units (nanometres in metres, picoamperes in amperes): spacings 1e-15..1e-11 -- exact in the rational model
            W = W * float(10 ** rng.uniform(-13, -10))
        if it % 5 >= 3:     # data that are not mean-centred: large common offset relative to the spread (both paths, Euclidean metric)
            metric = "euclidean"
            if it % 5 == 3:
                dz = 0
            W = W[:, :dx + dy + dz]
            W = W + float(np.abs(W).max()) * float(10 ** rng.uniform(5, 8)) * rng.choice([-1.0, 1.0], size=dx + dy + dz)
        X, Y, Z = W[:, :dx], W[:, dx:dx + dy], (W[:, dx + dy:] if dz else None)
        X0, Y0 = X.copy(), Y.copy()
        if Z is None:
            val = float(call_form(knn_mutual_information, "knn_mutual_information", it, X=X, Y=Y, metric=metric, k=k))      # every documented call form in turn
            for nm, v2 in (("knn_conditional_mutual_information(Z=None)", float(knn_conditional_mutual_information(X, Y, None, metric=metric, k=k))),
                           ("dispatcher(Z=None)", float(dispatcher(X, Y, None, method="knn", metric=metric, k=k)))):
                if not (v2 == val or (nm.startswith("dispatcher") and v2 == max(0.0, val))):
                    run.prop_fail("the kNN estimate without conditioning set depends on the entry point used", {"N": N, "dx": dx, "dy": dy, "k": k, "metric": metric, "X": X0, "Y": Y0},
                                  {"estimator": "knn", "metric": metric, "conditional": False, "entry": nm}, {"knn_mutual_information": val, nm: v2})
        else:
            val = float(call_form(knn_conditional_mutual_information, "knn_conditional_mutual_information", it, X=X, Y=Y, Z=Z, metric=metric, k=k))
        case = {"N": N, "dx": dx, "dy": dy, "dz": dz, "k": k, "metric": metric, "X": X0, "Y": Y0, "Z": Z}
        run.case("knn", [N, dx, dy, dz, k, metric, float(W[0, 0])], k >= 2 or dx + dy + dz >= 3, sample={k_: case[k_] for k_ in ("N", "dx", "dy", "dz", "k", "metric")} | {"impl": val})
        if not (np.array_equal(X, X0) and np.array_equal(Y, Y0)):
            run.prop_fail("argument modified", case, {"estimator": "knn", "clause": "purity"})
        meta.append(("knn", case, val))
        reqs.append({"op": "knn", "metric": metric, "k": k, "X": mat(X), "Y": mat(Y), **({"Z": mat(Z)} if Z is not None else {})})
    # ---- KDE
    for it in range(150 if thorough else 50):
        N = int(rng.integers(6, 41))
        if it % 5 == 4:       # larger samples (tree-based density evaluation takes other code paths than on a few dozen points)
            N = int(rng.integers(80, 600 if thorough else 400))
        dx, dy = int(rng.integers(1, 3)), int(rng.integers(1, 3))
        dz = int(rng.integers(1, 3))
        W = rng.standard_normal((N, dx + dy + dz)) * float(10 ** rng.uniform(-0.5, 0.5))
        X, Y, Z = W[:, :dx], W[:, dx:dx + dy], W[:, dx + dy:]
        bw = ["silverman", "scott", float(rng.uniform(0.05, 2.0))][it % 3]
        if it % 7 == 5:     # widely spread data with a large numeric bandwidth: very small densities
            sc = float(10 ** rng.uniform(1.5, 3))
            W = W * sc; X, Y, Z = W[:, :dx], W[:, dx:dx + dy], W[:, dx + dy:]
            bw = float(sc * rng.uniform(0.2, 0.6))
        if it % 6 == 1 and N <= 60:      # arguments of different dtypes: X as tie-free integers (ranks), Y and Z continuous
            X = (np.argsort(np.argsort(X, axis=0), axis=0) - N // 2).astype(np.int64)
        kind = ["entropy", "mi", "cmi"][(it // 3) % 3]
        if kind == "entropy":
            val = float(call_form(kde_entropy, "kde_entropy", it, X=X, bandwidth=bw, kernel="gaussian")); args = {"X": fmat(X)}
        elif kind == "mi":
            val = float(call_form(kde_mutual_information, "kde_mutual_information", it, X=X, Y=Y, bandwidth=bw, kernel="gaussian")); args = {"X": fmat(X), "Y": fmat(Y)}
        else:
            val = float(call_form(kde_conditional_mutual_information, "kde_conditional_mutual_information", it, X=X, Y=Y, Z=Z, bandwidth=bw, kernel="gaussian")); args = {"X": fmat(X), "Y": fmat(Y), "Z": fmat(Z)}
        case = {"N": N, "dx": dx, "dy": dy, "dz": dz, "bandwidth": bw, "kind": kind, "X": X, "Y": Y, "Z": Z}
        run.case("kde", [N, dx, dy, dz, str(bw), kind, float(W[0, 0])], N >= 10, sample={k_: case[k_] for k_ in ("N", "dx", "bandwidth", "kind")} | {"impl": val})
        meta.append(("kde", case, val))
        reqs.append({"op": "kde", "rule": bw if isinstance(bw, str) else "numeric", **({"h": {"b": f2b(bw)}} if not isinstance(bw, str) else {}), **args})
    # ---- samples of more than a thousand points (digamma arguments beyond any small table): independent evaluation with exact harmonic numbers,
    #      psi(n) = -gamma + H_{n-1}; neighbour counts by brute force on the same distance routine (strict <, self excluded)
    from scipy.spatial.distance import cdist as _cdist
    EG = 0.57721566490153286061
    for it in range(3 if thorough else 1):
        N = int(rng.integers(1001, 1400)); k = int(rng.integers(1, 6)); metric = METRICS[it % 3]
        W = rng.standard_normal((N, 3)) @ (rng.standard_normal((3, 3)) * 0.5 + np.eye(3))
        # a tightly concentrated conditioning variable: neighbour counts in Z beyond 1000 as well
        W[:, 2] = np.where(rng.random(N) < 0.97, 1e-3 * W[:, 2], W[:, 2] + 50.0)
        X, Y, Z = W[:, :1], W[:, 1:2], W[:, 2:]
        H = np.concatenate([[0.0], np.cumsum(1.0 / np.arange(1, N + 2))])     # H[m] = 1 + ... + 1/m
        psi = lambda m: -EG + H[np.asarray(m) - 1]
        v_mi = float(knn_mutual_information(X, Y, metric=metric, k=k))
        eps = np.sort(_cdist(W[:, :2], W[:, :2], metric=metric), axis=1)[:, k]
        nx = (_cdist(X, X, metric=metric) < eps[:, None]).sum(axis=1) - 1; ny = (_cdist(Y, Y, metric=metric) < eps[:, None]).sum(axis=1) - 1
        r_mi = float(psi(k) + psi(N) - np.mean(psi(nx + 1) + psi(ny + 1)))
        v_cmi = float(knn_conditional_mutual_information(X, Y, Z, metric=metric, k=k))
        eps = np.sort(_cdist(W, W, metric=metric), axis=1)[:, k]
        cnt = lambda B: (_cdist(B, B, metric=metric) < eps[:, None]).sum(axis=1) - 1
        nxz, nyz, nz = cnt(W[:, [0, 2]]), cnt(W[:, [1, 2]]), cnt(Z)
        r_cmi = float(psi(k) - np.mean(psi(nxz + 1) + psi(nyz + 1) - psi(nz + 1)))
        case = {"N": N, "k": k, "metric": metric, "max_count": int(max(nx.max(), ny.max(), nz.max())), "X": X[:5], "note": "first five rows shown; data = seeded stream of this run"}
        run.case("knn-large-N", [N, k, metric, float(W[0, 0])], True, sample={"N": N, "k": k, "metric": metric, "impl_mi": v_mi, "ref_mi": r_mi, "impl_cmi": v_cmi, "ref_cmi": r_cmi, "max_count": case["max_count"]})
        for nm, v, r in (("MI", v_mi, r_mi), ("CMI", v_cmi, r_cmi)):
            if not np.isfinite(v) or abs(v - r) > 1e-9:
                run.prop_fail("kNN estimate on more than a thousand samples differs from psi(k)+psi(N)-<...> evaluated with exact harmonic numbers", case,
                              {"estimator": "knn", "metric": metric, "conditional": nm == "CMI", "regime": "N>1000"}, {"impl": v, "reference": r})
    # ---- settings history: the SAME sample evaluated again with another bandwidth / kernel-free rule / neighbour count in the same process
    #      (a memo keyed on the data alone answers the second call from the first)
    for it in range(10 if thorough else 4):
        N = int(rng.integers(12, 40)); W = rng.standard_normal((N, 3))
        X, Y, Z = W[:, :1], W[:, 1:2], W[:, 2:]
        bws = ["silverman", 0.3, "scott", 1.1, 0.3]
        fresh = {}
        for b in bws:       # reference values: each setting on its own private copy of the data
            Wc = W.copy()
            fresh[str(b)] = (float(kde_entropy(Wc[:, :1].copy(), bandwidth=b)), float(kde_mutual_information(Wc[:, :1].copy(), Wc[:, 1:2].copy(), bandwidth=b)),
                             float(kde_conditional_mutual_information(Wc[:, :1].copy(), Wc[:, 1:2].copy(), Wc[:, 2:].copy(), bandwidth=b)))
        run.case("settings-history", [N, float(W[0, 0])], True)
        for b in bws:       # now the same array objects, one setting after the other
            got = (float(kde_entropy(X, bandwidth=b)), float(kde_mutual_information(X, Y, bandwidth=b)), float(kde_conditional_mutual_information(X, Y, Z, bandwidth=b)))
            # 'fresh' itself was computed after other settings on equal data, so compare with the Float reference of the model as well (below, via reqs)
            meta.append(("kde", {"N": N, "dx": 1, "dy": 1, "dz": 1, "bandwidth": b, "kind": "cmi", "X": X, "Y": Y, "Z": Z, "history": "same sample, settings in sequence"}, got[2]))
            reqs.append({"op": "kde", "rule": b if isinstance(b, str) else "numeric", **({"h": {"b": f2b(float(b))}} if not isinstance(b, str) else {}), "X": fmat(X), "Y": fmat(Y), "Z": fmat(Z)})
            meta.append(("kde", {"N": N, "dx": 1, "bandwidth": b, "kind": "entropy", "X": X, "Y": None, "Z": None, "history": "same sample, settings in sequence"}, got[0]))
            reqs.append({"op": "kde", "rule": b if isinstance(b, str) else "numeric", **({"h": {"b": f2b(float(b))}} if not isinstance(b, str) else {}), "X": fmat(X)})
            if got != fresh[str(b)]:
                run.prop_fail("KDE estimate of a sample depends on which settings were used on the same sample earlier in the process", {"N": N, "bandwidth": b, "X": X, "Y": Y, "Z": Z},
                              {"estimator": "kde", "clause": "purity", "history": "settings"}, {"in_sequence": got, "on_private_copies": fresh[str(b)]})
        ks = [1, 3, 2, 3]
        vals = [float(knn_conditional_mutual_information(X, Y, Z, metric="euclidean", k=kk)) for kk in ks] + [float(knn_mutual_information(X, Y, metric="chebyshev", k=2)), float(knn_mutual_information(X, Y, metric="euclidean", k=2))]
        for kk, v in zip(ks, vals):
            meta.append(("knn", {"N": N, "dx": 1, "dy": 1, "dz": 1, "k": kk, "metric": "euclidean", "X": X, "Y": Y, "Z": Z, "history": "same sample, settings in sequence"}, v))
            reqs.append({"op": "knn", "metric": "euclidean", "k": kk, "X": mat(X), "Y": mat(Y), "Z": mat(Z)})
        for mt, v in zip(("chebyshev", "euclidean"), vals[4:]):
            meta.append(("knn", {"N": N, "dx": 1, "dy": 1, "dz": 0, "k": 2, "metric": mt, "X": X, "Y": Y, "Z": None, "history": "same sample, settings in sequence"}, v))
            reqs.append({"op": "knn", "metric": mt, "k": 2, "X": mat(X), "Y": mat(Y)})
    # ---- history: same buffers refilled in place between two calls (kNN and KDE, with and without Z)
    from common import reuse_check
    for it in range(16 if thorough else 6):
        N = int(rng.integers(10, 30)); dz = it % 2
        A1, A2 = rng.standard_normal((N, 2 + dz)), rng.standard_normal((N, 2 + dz))
        sp = lambda W: (W[:, :1], W[:, 1:2], W[:, 2:] if dz else None)
        run.case("history", [N, dz, float(A1[0, 0])], True)
        kk = int(rng.integers(1, 5))
        reuse_check(run, "kNN estimator", lambda x, y, z: float(knn_conditional_mutual_information(x, y, z, metric="euclidean", k=kk)), sp(A1), sp(A2), {"estimator": "knn", "clause": "purity"})
        reuse_check(run, "KDE estimator", lambda x, y, z: float(kde_conditional_mutual_information(x, y, z, bandwidth="scott")), sp(A1), sp(A2), {"estimator": "kde", "clause": "purity"})
    worst = {"knn": 0.0, "kde": 0.0}
    for (kind, case, val), r in zip(meta, driver.run_sharded(reqs, shards=16)):
        if "ok" not in r:
            run.corr_fail(kind, case, r, None, "driver error"); continue
        run.traces += 1
        if kind == "knn":
            m, spec, gap = unval(r["ok"]["value"]), unval(r["ok"]["spec"]), unval(r["ok"]["gap"])
            if m != spec:
                run.corr_fail("knn-model-vs-spec", case, m, spec, "code-shaped model differs from the declarative brute-force spec (should be impossible on tie-free data)")
            if gap < Fraction(1, 10**12):
                run.skip("near-tie (relative key gap < 1e-12)"); continue
            err = abs(val - float(m)); worst["knn"] = max(worst["knn"], err)
            if not np.isfinite(val) or err > 1e-9:
                run.prop_fail("kNN estimate differs from psi(k)+psi(N)-<psi(nx+1)+psi(ny+1)> / psi(k)-<psi(nxz+1)+psi(nyz+1)-psi(nz+1)> evaluated by brute force",
                              case, {"estimator": "knn", "metric": case["metric"], "conditional": case["dz"] > 0}, {"impl": val, "brute_force_exact": float(m)})
        else:
            m = b2f(r["ok"]["b"])
            err = abs(val - m); worst["kde"] = max(worst["kde"], err)
            if not np.isfinite(val) or err > 1e-9 * max(1.0, abs(m)):
                run.prop_fail("KDE entropy / (conditional) mutual information differs from minus the mean log kernel density (signed sum of such entropies)",
                              case, {"estimator": "kde", "kind": case["kind"], "bandwidth": str(case["bandwidth"]) if isinstance(case["bandwidth"], str) else "numeric"}, {"impl": val, "reference": m})
    run.extra["max_abs_error"] = worst
    if sum(run.skipped.values()) > 0.01 * max(1, len(meta)):
        from common import Infra
        raise Infra("more than 1% of the cases were skipped by the near-tie filter")
    run.assumptions += [
        "scipy.special.digamma at positive integers = -gamma + H_{n-1} (trusted; psi_free is proved for any psi with the recurrence)",
        "scipy cdist rounding: comparisons within 1e-12 relative of a tie are skipped and counted",
        "sklearn KernelDensity bandwidth rules (scott: N^(-1/(d+4)), silverman: (N(d+2)/4)^(-1/(d+4))) are mirrored by the model's Float instance",
    ]
