"""C15 -- tabular export lists each edge exactly once with unchanged attributes."""
import itertools
import math

import networkx as nx
import numpy as np
import pandas as pd

import gen_tables
from common import num, unval

PARAMS = ["method", "information", "alpha_forward", "alpha_backward", "metric", "bandwidth", "k_means", "n_shuffles", "max_lag"]
VALUES = {"method": "standard", "information": "knn", "alpha_forward": 0.05, "alpha_backward": 0.01, "metric": "euclidean",
          "bandwidth": "silverman", "k_means": 5, "n_shuffles": 200, "max_lag": 3}
DOC_COLS = {"method": "Method", "information": "Information", "alpha_forward": "Alpha_Forward", "alpha_backward": "Alpha_Backward",
            "metric": "Metric", "bandwidth": "Bandwidth", "k_means": "K_Means", "n_shuffles": "N_Shuffles", "max_lag": "Max_Lag"}
FALSY = {"method": "", "information": "", "alpha_forward": 0.0, "alpha_backward": 0.0, "metric": "", "bandwidth": 0.0, "k_means": 0, "n_shuffles": 0, "max_lag": 0}
BASE = ["Source", "Sink", "Lag", "CMI", "P_Value"]
LABELS = [0, 1, 2, "X0", "X1", "b", ("t", 1), ("t", 2), 10, "10", 3.5]


def isnone(v):
    return v is None or (isinstance(v, float) and math.isnan(v)) or v is pd.NA


def cell_eq(a, b):
    if isnone(a) and isnone(b):
        return True
    if isnone(a) or isnone(b):
        return False
    if isinstance(a, (bool, np.bool_)) or isinstance(b, (bool, np.bool_)):
        return bool(a) == bool(b)
    if isinstance(a, (int, float, np.integer, np.floating)) and isinstance(b, (int, float, np.integer, np.floating)):
        return float(a) == float(b)
    return type(a) == type(b) and a == b


def dcell(v):
    if isinstance(v, str):
        return {"str": v}
    if isinstance(v, (bool, np.bool_)):
        return {"bool": bool(v)}
    if isinstance(v, (int, np.integer)):
        return {"int": int(v)}
    return {"rat": num(float(v))}


def from_dcell(j, nodes):
    if j is None:
        return None
    if "node" in j:
        return nodes[j["node"]]
    if "int" in j:
        return j["int"]
    if "rat" in j:
        return float(unval(j["rat"]))
    if "str" in j:
        return j["str"]
    return j["bool"]


def rand_graph(rng, pcmci=False):
    n = int(rng.integers(1, 7))
    labels = [LABELS[i] for i in rng.choice(len(LABELS), size=n, replace=False)]
    G = nx.MultiDiGraph()
    G.add_nodes_from(labels)
    m = int(rng.integers(0, 10))
    for _ in range(m):
        u, v = labels[int(rng.integers(0, n))], labels[int(rng.integers(0, n))]
        d = {}
        if rng.random() < 0.85:
            d["lag"] = int(rng.integers(0, 5))
        if rng.random() < 0.8:
            d["cmi"] = float(rng.integers(-32, 64)) / 16          # raw kNN / KDE estimates are negative now and then; the export copies whatever the edge carries
            if rng.random() < 0.12:
                d["cmi"] = 0.0                                     # the clamped value: always present (a falsy number is a number)
        if rng.random() < 0.8:
            d["p_value"] = float(rng.integers(0, 17)) / 16
            if rng.random() < 0.1:
                d["p_value"] = 0.0
        if pcmci:
            if rng.random() < 0.7:
                d["val"] = float(rng.integers(-32, 32)) / 8
            if rng.random() < 0.9:
                d["link_type"] = ["directed", "undirected", "conflicting", "possible_directed"][int(rng.integers(0, 4))]
            if rng.random() < 0.4:
                d["significant"] = bool(rng.random() < 0.5)
            if d.get("link_type") in ("undirected", "conflicting") and rng.random() < 0.7 and u != v:
                G.add_edge(u, v, **d)
                G.add_edge(v, u, **d)
                continue
        G.add_edge(u, v, **d)
    return G


def check(run, driver):
    from common import ModuleEntryPoints, call_form
    _form = [0]
    U = ModuleEntryPoints("causationentropy.graph.utils", "causationentropy.graph")     # both public paths, in turn

    run.rule = (
        "random multigraphs (mixed-type labels incl. 10 vs '10', parallel edges, self-loops, missing attributes) x subsets of the 9 metadata "
        "arguments (all 512 in thorough, 64 random + empty + full in quick); PCMCI-style graphs with mirrored symmetric links. Frames compared "
        "cell-wise with the model after None==NaN canonicalisation. Non-trivial = >=2 edges; distinct by content hash"
    )
    thorough = run.tier == "thorough"
    rng = run.rng
    tabs, notes = gen_tables.generate()
    u = tabs.get("utils") or {}
    if not u or any(k not in u for k in ("param_cols", "metadata_order", "base_cols", "base_columns", "optional_columns")) or not u["param_cols"]:
        run.extra["translator"] = "UNTRANSLATABLE (" + "; ".join(notes) + ") -- the source no longer has a shape the AST translator recognises; the table obligation is not established on this run and the property is decided by the correspondence alone (DESIGN.md §2.4)"
        param_cols, order = [(p, DOC_COLS[p]) for p in PARAMS], [DOC_COLS[p] for p in PARAMS]
    else:
        body = ("example : Generated.paramCols = CE.Graph.stdMeta := by decide\n"
                "example : Generated.metadataOrder = CE.Graph.stdMeta.map (·.2) := by decide\n"
                "example : Generated.baseCols = CE.Graph.baseCols := by decide\n"
                "example : Generated.pcmciBaseCols = CE.Graph.pcmciBaseCols := by decide\n"
                "example : Generated.pcmciOptionalCols = [\"Significant\"] := by decide\n")
        ok, out = gen_tables.obligation("ObC15", body)
        run.oblige("ObC15 generated column tables = documented tables (decide): param->column pairs, metadata order, base columns, PCMCI columns", ok, out if not ok else "")
        param_cols, order = u["param_cols"], u["metadata_order"]
    subsets = [(), tuple(PARAMS)]
    if thorough:
        subsets = [tuple(p for i, p in enumerate(PARAMS) if mask >> i & 1) for mask in range(512)]
    else:
        subsets += [tuple(p for i, p in enumerate(PARAMS) if mask >> i & 1) for mask in rng.choice(512, size=62, replace=False)]
    graphs = [rand_graph(rng) for _ in range(40 if thorough else 24)]
    graphs.append(nx.MultiDiGraph())
    g1 = nx.MultiDiGraph(); g1.add_nodes_from([1, 2]); graphs.append(g1)
    reqs, meta = [], []
    for gi, G in enumerate(graphs):
        nodes = list(G.nodes())
        pos = {n: i for i, n in enumerate(nodes)}
        edges = list(G.edges(data=True))
        G0 = G.copy()
        for sub in (subsets if gi % 4 == 0 or thorough else subsets[:6] + subsets[gi % len(subsets)::9]):
            vals = VALUES if (gi + len(sub)) % 3 else FALSY
            kw = {p: vals[p] for p in sub}
            _form[0] += 1
            df = call_form(U.network_to_dataframe, "network_to_dataframe", _form[0], G=G, **kw)      # every documented call form in turn
            case = {"nodes": [repr(n) for n in nodes], "edges": [(pos[a], pos[b], d) for a, b, d in edges], "metadata": kw}
            run.case("export", [case["nodes"], case["edges"], sorted(sub)], len(edges) >= 2, sample=case if len(edges) >= 2 else None)
            # ---- the property, directly
            want_cols = BASE + ([DOC_COLS[p] for p in PARAMS if p in sub] if edges else [])
            if list(df.columns) != want_cols:
                run.prop_fail("columns are not the five base columns followed by the supplied metadata in documented order", case, {"clause": "columns"}, list(df.columns))
                continue
            if len(df) != len(edges):
                run.prop_fail("not exactly one row per edge", case, {"clause": "rows"}, {"rows": len(df), "edges": len(edges)})
                continue
            for i, (a, b, d) in enumerate(edges):
                row = df.iloc[i]
                want = [a, b, d.get("lag", 0), d.get("cmi"), d.get("p_value")] + [vals[p] for p in PARAMS if p in sub]
                if not all(cell_eq(x, y) for x, y in zip(list(row), want)):
                    run.prop_fail("row does not carry the edge's endpoints/attributes (in edge order) and constant metadata", case, {"clause": "rows"}, {"row": i, "got": list(row), "want": want})
                    break
            meta.append(("frame", case, df, nodes))
            reqs.append({"op": "export_frame", "param_cols": [list(p) for p in param_cols], "order": order,
                         "supplied": [[p, dcell(vals[p])] for p in sub],
                         "edges": [{"u": {"id": pos[a], "str": str(a)}, "v": {"id": pos[b], "str": str(b)},
                                    **({"lag": int(d["lag"])} if "lag" in d else {}), **({"cmi": num(d["cmi"])} if "cmi" in d else {}),
                                    **({"p": num(d["p_value"])} if "p_value" in d else {})} for a, b, d in edges]})
        if not nx.utils.graphs_equal(G, G0):
            run.prop_fail("graph modified by export", {"graph": gi}, {"clause": "purity"})
    # ---- history: the same graph object changed in place between two exports must export like a fresh graph with those edges
    for it in range(40 if thorough else 12):
        G = rand_graph(rng, pcmci=bool(it % 2))
        if G.number_of_edges() == 0:
            continue
        exp = (lambda g: U.pcmci_network_to_dataframe(g)) if it % 2 else (lambda g: U.network_to_dataframe(g, method="standard", max_lag=3))
        exp(G)
        u_, v_, k_, d_ = list(G.edges(keys=True, data=True))[int(rng.integers(0, G.number_of_edges()))]
        d_["lag"] = int(d_.get("lag", 0)) + 1; d_["p_value"] = 0.0; d_["cmi"] = 9.5
        if it % 3 == 0:
            G.add_edge(v_, u_, lag=7, cmi=0.25, p_value=0.5)
        fresh = nx.MultiDiGraph(); fresh.add_nodes_from(G.nodes(data=True)); fresh.add_edges_from((a, b, dict(dd)) for a, b, dd in G.edges(data=True))
        d1, d2 = exp(G), exp(fresh)
        run.case("history", [it, [(repr(a), repr(b), dd) for a, b, dd in G.edges(data=True)]], True)
        same = list(d1.columns) == list(d2.columns) and len(d1) == len(d2) and all(cell_eq(x, y) for r1, r2 in zip(d1.values.tolist(), d2.values.tolist()) for x, y in zip(r1, r2))
        if not same:
            run.prop_fail("after the graph was changed in place, the export of the same graph object differs from the export of a fresh graph with the same edges (stale state)",
                          {"edges_after_change": [(repr(a), repr(b), dd) for a, b, dd in G.edges(data=True)], "exporter": "pcmci" if it % 2 else "network"}, {"clause": "history"})
    # ---- history: the returned frame belongs to the caller; editing it must not affect a later export (edgeless graphs included)
    for it in range(8):
        Ge = nx.MultiDiGraph(); Ge.add_nodes_from(range(it % 3 + 1))
        for exp, cols in ((lambda g: U.network_to_dataframe(g, method="standard"), BASE), (U.pcmci_network_to_dataframe, ["Source", "Sink", "Lag", "Val", "P_Value", "Link_Type", "Significant"])):
            d1 = exp(Ge)
            try:
                d1["Extra"] = 1; d1.loc[len(d1)] = [0] * len(d1.columns)
            except Exception:  # noqa
                pass
            Ge2 = nx.MultiDiGraph(); Ge2.add_nodes_from(["a", "b"])
            d2 = exp(Ge2)
            run.case("history-empty", [it, cols], True)
            if list(d2.columns) != cols or len(d2) != 0:
                run.prop_fail("an edgeless graph does not give an empty frame with the base columns after the caller edited a previously returned frame (shared object)",
                              {"columns": list(d2.columns), "rows": len(d2)}, {"clause": "empty", "history": True})
    # ---- PCMCI-graph export
    pgraphs = [rand_graph(rng, pcmci=True) for _ in range(300 if thorough else 80)] + [nx.MultiDiGraph()]
    for G in pgraphs:
        nodes = list(G.nodes()); pos = {n: i for i, n in enumerate(nodes)}
        edges = list(G.edges(data=True))
        df = U.pcmci_network_to_dataframe(G)
        case = {"nodes": [repr(n) for n in nodes], "edges": [(pos[a], pos[b], d) for a, b, d in edges]}
        run.case("export-pcmci", [case["nodes"], case["edges"]], len(edges) >= 2, sample=case if len(edges) >= 3 else None)
        # property: symmetric links once (canonical endpoints), others one row each with Val/Link_Type
        want_rows, seen = [], set()
        for a, b, d in edges:
            lt, lag = d.get("link_type", "directed"), d.get("lag", 0)
            if lt in ("undirected", "conflicting"):
                s, t = sorted((a, b), key=str)
                key = (pos[s], pos[t], lag, lt)
                if key in seen:
                    continue
                seen.add(key)
            else:
                s, t = a, b
            want_rows.append([s, t, lag, d.get("val", d.get("cmi")), d.get("p_value"), lt] + ([bool(d["significant"])] if "significant" in d else [None]))
        has_sig = any(w[6] is not None for w in want_rows)      # (over the rows actually listed: a de-duplicated mirror edge contributes no column)
        want_cols = ["Source", "Sink", "Lag", "Val", "P_Value", "Link_Type"] + (["Significant"] if (has_sig or not want_rows) else [])
        if list(df.columns) != want_cols or len(df) != len(want_rows):
            run.prop_fail("PCMCI export: wrong header or a symmetric link not listed exactly once", case, {"clause": "pcmci_rows"}, {"cols": list(df.columns), "rows": len(df), "want_rows": len(want_rows)})
            continue
        for i, w in enumerate(want_rows):
            got = list(df.iloc[i])
            if not all(cell_eq(x, y) for x, y in zip(got, w[: len(got)])):
                run.prop_fail("PCMCI export: row differs from the edge's endpoints/Val/P_Value/Link_Type", case, {"clause": "pcmci_rows"}, {"row": i, "got": got, "want": w})
                break
        meta.append(("pcmci", case, df, nodes))
        reqs.append({"op": "export_pcmci", "edges": [{"u": {"id": pos[a], "str": str(a)}, "v": {"id": pos[b], "str": str(b)},
                     **({"lag": int(d["lag"])} if "lag" in d else {}), **({"type": d["link_type"]} if "link_type" in d else {}),
                     **({"val": num(d["val"])} if "val" in d else {}), **({"cmi": num(d["cmi"])} if "cmi" in d else {}),
                     **({"p": num(d["p_value"])} if "p_value" in d else {}), **({"sig": bool(d["significant"])} if "significant" in d else {})} for a, b, d in edges]})
    for (kind, case, df, nodes), r in zip(meta, driver.run_sharded(reqs)):
        if "ok" not in r:
            run.corr_fail(kind, case, r, None, "driver error"); continue
        run.traces += 1
        m = r["ok"]
        if m["cols"] != list(df.columns) or len(m["rows"]) != len(df):
            run.corr_fail(kind, case, {"cols": m["cols"], "nrows": len(m["rows"])}, {"cols": list(df.columns), "nrows": len(df)}); continue
        for i, mrow in enumerate(m["rows"]):
            got = list(df.iloc[i])
            if kind == "frame":
                want = [from_dcell(c, nodes) for c in mrow]
            else:
                want = [nodes[mrow[0]], nodes[mrow[1]], mrow[2], None if mrow[3] is None else float(unval(mrow[3])),
                        None if mrow[4] is None else float(unval(mrow[4])), mrow[5]] + ([mrow[6]] if "Significant" in m["cols"] else [])
            if not all(cell_eq(x, y) for x, y in zip(got, want)) or len(got) != len(want):
                run.corr_fail(kind, case, want, got, f"row {i}"); break
    run.assumptions += ["NetworkX edge iteration order is the 'edge order' (trusted container semantics)", "pandas DataFrame construction trusted; None and NaN identified when comparing cells"]
