"""C05 -- a strong planted lagged dependence is recovered with its direction and lag."""
import math
import warnings
from concurrent.futures import ProcessPoolExecutor

import numpy as np

from common import quiet
from props.c04 import binom_tail

METHODS = ["standard", "alternative", "information_lasso", "lasso"]
ESTIMATORS = ["gaussian", "knn", "kde", "poisson", "geometric_knn"]
BUDGET = 1e-9


def make_system(info, rng, stratum=None):
    if info == "geometric_knn":
        n, T = 2, 100
    else:
        n, T = int(rng.integers(2, 5)), int(rng.integers(100, 161))
    L = int(rng.integers(1, 4))
    if stratum == "short-wide" and info != "geometric_knn":     # corner of the quantifier: many lagged predictors, shortest admissible series
        n, L, T = (4 if rng.random() < 0.7 else 3), 3, int(rng.integers(100, 104))
    u = int(rng.integers(0, n)); v = int((u + 1 + rng.integers(0, n - 1)) % n)
    tau = int(rng.integers(1, L + 1))
    if isinstance(stratum, tuple) and stratum[0] == "structure":     # every relative position of source and target, every lag
        _, diff, tau = stratum[:3]
        n = int(rng.integers(abs(diff) + 1, 5)); L = int(rng.integers(tau, 4)); T = int(rng.integers(100, 161))
        v = int(rng.integers(max(0, -diff), min(n, n - diff))); u = v + diff
    if info == "poisson":
        x = rng.poisson(0.5, size=(T, n)).astype(float)
        for t in range(tau, T):
            x[t, v] = rng.poisson(0.5 + 2.0 * x[t - tau, u])
    else:
        x = rng.standard_normal((T, n))
        noise = 0.3 * rng.standard_normal(T)
        for t in range(tau, T):
            x[t, v] = 0.95 * x[t - tau, u] + noise[t]
    return x, n, T, L, u, v, tau


def one_run(args):
    info, method, seed, nsh = args[:4]
    stratum = args[4] if len(args) > 4 else None
    from props import disc_common as DC

    warnings.simplefilter("ignore")
    rng = np.random.default_rng(seed)
    x, n, T, L, u, v, tau = make_system(info, rng, stratum)
    names = [f"X{i}" for i in range(n)]
    arg = x.copy()
    if info == "poisson" and seed % 2:
        arg = x.astype(np.int64)          # counts as the integers they are (what a Poisson sampler returns)
    if isinstance(stratum, tuple) and stratum[0] == "structure" and stratum[3] == "ndarray-int64":
        arg = np.round(x * 100).astype(np.int64)        # the same system recorded in integer units (hundredths)
    elif isinstance(stratum, tuple) and stratum[0] == "structure" and stratum[3] != "ndarray":
        import pandas as pd
        names = {"int": [7 * (n - i) for i in range(n)], "tuple": [("s", i % 2, i) for i in range(n)], "str": [f"v{chr(100 - i)}" for i in range(n)]}[stratum[3]]
        arg = pd.DataFrame(x.copy(), columns=pd.Index(names, tupleize_cols=False))
    if isinstance(stratum, tuple) and stratum[0] == "structure" and stratum[3] in ("ndarray", "str") and seed % 2:
        # the caller's buffer (array or frame) analysed once with other numbers (white noise) and then refilled in place with the planted system
        import contextlib, io
        from causationentropy import discover_network as _dn
        other = rng.standard_normal(x.shape)
        if hasattr(arg, "iloc"):
            arg.iloc[:, :] = other
        else:
            arg[:] = other
        with contextlib.redirect_stdout(io.StringIO()):
            _dn(arg, method=method, information=info, max_lag=L, n_shuffles=4)
        if hasattr(arg, "iloc"):
            arg.iloc[:, :] = x
        else:
            arg[:] = x
    o = DC.observe(arg, None, method=method, information=info, max_lag=L, n_shuffles=nsh, k_means=5)
    if "error" in o:
        return {"error": o["error"], "seed": seed}
    G = o["G"]
    into_v = [(a, d["lag"], float(d["cmi"])) for a, b, d in G.edges(data=True) if b == names[v]]
    present = any(a == names[u] and l == tau for a, l, c in into_v)
    largest = present and max(c for a, l, c in into_v) == next(c for a, l, c in into_v if a == names[u] and l == tau)
    # premises of planted_recovered, read off the instrumented run (oCSE methods only)
    premise = None
    accept_mismatch = None
    if method in ("standard", "alternative"):
        want = x[L - tau: T - tau, u]
        tests_v = [t for t in o["tests"] if np.array_equal(t["Y"][:, 0], x[L:, v])]
        planted = [t for t in tests_v if np.array_equal(t["X"][:, 0], want)]
        # phases: forward tests come before the backward order draw of this target (a permutation call whose argument is a list)
        list_draws = [i for i, a in enumerate(o["args"]) if not isinstance(a, (int, np.integer))]
        if planted and list_draws and tests_v:
            bdraw = [i for i in list_draws if tests_v[0]["draw_start"] <= i <= tests_v[-1]["draw_end"]]
            if bdraw:
                fwd = [t for t in planted if t["draw_start"] < bdraw[0]]
                rest = [t for t in planted if t["draw_start"] > bdraw[0]]
                if fwd:
                    acc = bool(fwd[0]["result"]["Pass"])
                    bwd_ok = bool(rest and rest[0]["result"]["Pass"])
                    premise = acc and bwd_ok
                # the theorem's notion of "accepted in the forward phase" is "its forward test passed": the set handed to the backward
                # phase (argument of the order draw) must be exactly the candidates whose forward test reported Pass
                cols = {j * L + t_ - 1: x[L - t_: T - t_, j] for j in range(n) for t_ in range(1, L + 1)}
                ident = lambda col: next((c for c, a in cols.items() if np.array_equal(a, col)), None)
                fwd_all = [t for t in tests_v if t["draw_start"] < bdraw[0]]
                passed = sorted(c for c in (ident(t["X"][:, 0]) for t in fwd_all if bool(t["result"]["Pass"])) if c is not None)
                handed = sorted(int(c) for c in np.asarray(o["args"][bdraw[0]]).ravel())
                if passed != handed:
                    accept_mismatch = {"passed_forward_tests": passed, "handed_to_backward": handed}
        # ... and "passed" must mean the documented test: significance only for an observed value strictly above the reported threshold
        for t in o["tests"]:
            r_ = t["result"]
            if accept_mismatch is None and bool(r_["Pass"]) and not (float(r_["Value"]) > float(r_["Threshold"])):
                accept_mismatch = {"test_reports_Pass_without_exceeding_its_threshold": {k_: float(r_[k_]) for k_ in ("Value", "Threshold", "P_value")}}
    return {"stratum": stratum, "nsh": nsh, "present": bool(present), "largest": bool(largest), "premise": premise, "n": n, "T": T, "L": L, "u": u, "v": v, "tau": tau, "seed": seed,
            "edges_into_v": [(a, l) for a, l, c in into_v], "accept_mismatch": accept_mismatch}


def check(run, driver):
    run.rule = (
        "random planted systems of the property (n in 2..4, max_lag in 1..3, u != v, tau <= max_lag, T in 100..160, coupling 0.95, noise 0.3; "
        "counts: rate 0.5 + 2 u(t-tau); geometric-kNN: n=2, T=100) x estimators x methods; the real discover_network is run under "
        "instrumentation; (a) premise => conclusion of the Lean theorem planted_recovered must hold in EVERY run; (b) the recovery frequency "
        "is tested against 98% (75% geometric-kNN) by an exact binomial lower tail, false-alarm budget 1e-9. Non-trivial = every run; distinct by seed"
    )
    thorough = run.tier == "thorough"
    rng = run.rng
    plans = []
    for info in ESTIMATORS:
        for method in METHODS:
            heavy = method in ("standard", "alternative")
            if info in ("gaussian",):
                m = 200 if thorough else (80 if heavy else 16)
            elif info in ("knn", "kde"):
                m = 60 if thorough else (6 if heavy else 12)
            elif info == "poisson":
                m = 16 if thorough else (2 if heavy else 6)
            else:
                m = 16 if thorough else (2 if heavy else 3)
            nsh = 200 if thorough and info == "gaussian" else (100 if thorough else 40)
            if info in ("poisson", "geometric_knn"):
                nsh = 30 if thorough else 20
            plans.append((info, method, m, nsh))
    tasks = []
    for info, method, m, nsh in plans:
        for _ in range(m):
            tasks.append((info, method, int(rng.integers(0, 2**31)), nsh))
    # strata at the corners of the quantifier (each judged on its own as well)
    strata = []
    for info in ("gaussian", "knn", "kde"):
        for method in ("information_lasso", "lasso"):
            for _ in range(24 if thorough else 12):
                strata.append((info, method, int(rng.integers(0, 2**31)), 40, "short-wide"))
    for method in ("standard", "alternative"):
        for _ in range(16 if thorough else 5):
            strata.append(("gaussian", method, int(rng.integers(0, 2**31)), int(rng.choice([10, 15])), "few-shuffles"))
    # counts presented as the integers they are (odd seeds, see one_run), under both oCSE variants: information below 1 nat must not be lost
    for method in ("standard", "alternative"):
        for _ in range(12 if thorough else 8):
            strata.append(("poisson", method, 2 * int(rng.integers(0, 2**30)) + 1, 20, "integer-counts-" + method))
    # structural sweep: every selection method x every relative position u - v x every lag (x ndarray / labelled frames):
    # a slip in the candidate bookkeeping loses ONE such cell completely while the pooled frequency stays high
    LABS = ["ndarray", "int", "tuple", "str", "ndarray-int64"]
    per_cell = 16 if thorough else 10
    cells = [(method, diff, tau) for method in METHODS for diff in (-3, -2, -1, 1, 2, 3) for tau in (1, 2, 3)]
    for ci, (method, diff, tau) in enumerate(cells):
        for j in range(per_cell):
            strata.append(("gaussian", method, int(rng.integers(0, 2**31)), 20, ("structure", diff, tau, LABS[(ci + j) % 5])))
    tasks += strata
    with ProcessPoolExecutor(16) as ex:
        results = list(ex.map(one_run, tasks, chunksize=1))
    by = {}
    bystr = {}
    for t, r in zip(tasks, results):
        if len(t) > 4:
            bystr.setdefault((t[0], t[4]), []).append((t, r))
        else:
            by.setdefault((t[0], t[1]), []).append(r)
    ntests = 2 * len(ESTIMATORS) + 4 + 4
    table = []
    for info in ESTIMATORS:
        pooled = []
        for method in METHODS:
            rs = by.get((info, method), [])
            for r in rs:
                case = {"estimator": info, "method": method, **{k: r.get(k) for k in ("n", "T", "L", "u", "v", "tau", "seed")}}
                run.case(f"{info}-{method}", [info, method, r.get("seed")], True, sample={**case, "present": r.get("present"), "edges_into_v": r.get("edges_into_v")})
                if "error" in r:
                    run.prop_fail("discover_network raises on a planted system", case, {"clause": "total", "estimator": info}, r["error"]); continue
                if r.get("accept_mismatch"):
                    run.corr_fail("forward-acceptance", case, "candidates handed to the backward phase = candidates whose forward test passed", r["accept_mismatch"],
                                  "the forward phase accepts on something else than the reported verdict of its significance test (premise of planted_recovered)")
                if r["premise"] is True:
                    run.traces += 1
                    if not r["present"]:
                        run.prop_fail("the planted predictor was accepted in the forward phase and passed its backward test, yet no edge u->v with lag tau is reported "
                                      "(premises of planted_recovered hold, conclusion fails)", case, {"clause": "conditional_recovery", "estimator": info, "method": method})
                pooled.append(r)
            ok = sum(1 for r in rs if r.get("present")); m = len(rs)
            row = {"estimator": info, "method": method, "runs": m, "recovered": ok, "planted_is_largest": sum(1 for r in rs if r.get("largest"))}
            if m >= 30:
                q_ = 0.75 if info == "geometric_knn" else 0.98
                row["binomial_lower_tail"] = binom_tail(m, 1 - q_, m - ok)
                if row["binomial_lower_tail"] < BUDGET / (ntests + 8):
                    bad = next(r for r in rs if not r.get("present"))
                    run.prop_fail("recovery frequency of the planted edge is below the required rate under one selection method", {"estimator": info, "method": method, "runs": m, "recovered": ok, "example_failure": bad},
                                  {"clause": "frequency", "estimator": info, "method": method}, {"binomial_lower_tail": row["binomial_lower_tail"]})
            table.append(row)
        m = len(pooled)
        if not m:
            continue
        q = 0.75 if info == "geometric_knn" else 0.98
        succ = sum(1 for r in pooled if r.get("present"))
        # P(Bin(m, q) <= succ) = P(Bin(m, 1-q) >= m - succ)
        tail = binom_tail(m, 1 - q, m - succ)
        table.append({"estimator": info, "method": "ALL", "runs": m, "recovered": succ, "required_rate": q, "binomial_lower_tail": tail})
        if tail < BUDGET / ntests:
            bad = next(r for r in pooled if not r.get("present"))
            run.prop_fail("recovery frequency of the planted edge is below the required rate", {"estimator": info, "runs": m, "recovered": succ, "required_rate": q, "example_failure": bad},
                          {"clause": "frequency", "estimator": info}, {"binomial_lower_tail": tail})
        if info in ("gaussian", "knn", "kde"):
            big = sum(1 for r in pooled if r.get("largest"))
            tail2 = binom_tail(m, 1 - q, m - big)
            table.append({"estimator": info, "method": "ALL", "runs": m, "planted_edge_has_largest_cmi_into_v": big, "binomial_lower_tail": tail2})
            if tail2 < BUDGET / ntests:
                run.prop_fail("the planted edge does not carry the largest conditional information among the edges into v often enough", {"estimator": info, "runs": m, "largest": big},
                              {"clause": "largest", "estimator": info}, {"binomial_lower_tail": tail2})
    # cells of the structural sweep, each judged on its own (and per label kind, pooled over cells)
    cellres = {}
    for key in [k for k in bystr if isinstance(k[1], tuple)]:
        for t, r in bystr.pop(key):
            cellres.setdefault(("cell", t[1], key[1][1], key[1][2]), []).append((t, r))
            cellres.setdefault(("labels", key[1][3]), []).append((t, r))
    ncell = len(cellres)
    for key, trs in sorted(cellres.items(), key=repr):
        rs = [r for _, r in trs if "error" not in r]
        for t, r in trs:
            if key[0] == "cell":
                run.case("gaussian-structure", [t[1], key[2], key[3], t[2]], True)
            if "error" in r:
                run.prop_fail("discover_network raises on a planted system", {"method": t[1], "stratum": list(map(str, t[4])), "seed": t[2]}, {"clause": "total", "estimator": "gaussian"}, r["error"])
        m = len(rs); succ = sum(1 for r in rs if r.get("present"))
        tail = binom_tail(m, 0.02, m - succ) if m else 1.0
        if key[0] == "labels" or tail < 1e-3:
            table.append({"estimator": "gaussian", "structure": [str(k) for k in key], "runs": m, "recovered": succ, "binomial_lower_tail": tail})
        if tail < BUDGET / (ntests + ncell):
            bad = next(r for r in rs if not r.get("present"))
            what = (f"method {key[1]}, source index - target index = {key[2]}, lag {key[3]}" if key[0] == "cell" else f"input presented as {key[1]}")
            run.prop_fail("the planted edge is (almost) never recovered in one structural cell of the quantifier: " + what,
                          {"estimator": "gaussian", "cell": [str(k) for k in key], "runs": m, "recovered": succ, "example_failure": bad},
                          {"clause": "frequency", "estimator": "gaussian", "cell": [str(k) for k in key]}, {"binomial_lower_tail": tail})
    run.extra["structural_cells"] = {"cells": len([k for k in cellres if k[0] == "cell"]), "runs_per_cell": per_cell}
    for (info, stratum), trs in sorted(bystr.items()):
        rs = [r for _, r in trs if "error" not in r]
        for t, r in trs:
            run.case(f"{info}-{stratum}", [info, stratum, t[2]], True)
        m = len(rs); succ = sum(1 for r in rs if r.get("present"))
        tail = binom_tail(m, 0.02, m - succ) if m else 1.0
        table.append({"estimator": info, "stratum": stratum, "runs": m, "recovered": succ, "required_rate": 0.98, "binomial_lower_tail": tail})
        if tail < BUDGET / ntests:
            bad = next(r for r in rs if not r.get("present"))
            run.prop_fail("recovery frequency of the planted edge is below the required rate in a corner of the quantifier", {"estimator": info, "stratum": stratum, "runs": m, "recovered": succ, "example_failure": bad},
                          {"clause": "frequency", "estimator": info, "stratum": stratum}, {"binomial_lower_tail": tail})
    run.extra["recovery_table"] = table
    run.extra["explanation"] = (
        "Partial: planted_recovered (Lean, CEProofs/C05.lean) says that a planted column which is the strict arg-max while undecided and passes its "
        "forward and backward tests yields the edge with exactly its variable and lag, for any behaviour of all other candidates; premise => "
        "conclusion is checked on every instrumented real run. The recovery FREQUENCY is estimator power on random data -- no theorem about a model "
        "yields it; it is decided only by the binomial measurement above (budget 1e-9; quick tier: few runs, low power; thorough: 60/16 per cell)."
    )
    run.assumptions += ["the distribution of estimator values on random data is not modelled; frequencies are measurements", "n_shuffles reduced from the default 200 in the quick tier to bound the run time"]
