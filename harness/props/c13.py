"""C13 -- Poisson entropy is the true Poisson entropy, element by element."""
import warnings

import numpy as np

from common import b2f, f2b, mat, num, unval, vec


def fl(x):
    return {"b": f2b(float(x))}


def check(run, driver):
    from causationentropy.core.information.entropy import poisson_entropy, poisson_joint_entropy
    from common import EntryPoints as _EP     # the star re-exports of causationentropy.core.information are public paths too
    poisson_entropy = _EP("poisson_entropy", "causationentropy.core.information.entropy", "causationentropy.core.information")
    poisson_joint_entropy = _EP("poisson_joint_entropy", "causationentropy.core.information.entropy", "causationentropy.core.information")

    run.rule = (
        "scalar rates on a deterministic grid over [0,500] (log-spaced below 1, linear above) plus extremely small rates, 0 and negative rates; "
        "vectors/matrices of mixed magnitude (ratios up to 1e30, zeros mixed in) in shapes (n,), (1,n), (n,1), (n,m); random square matrices "
        "for the joint entropy. Reference = independent log-space series in the Lean driver (Float). Non-trivial = rate > 0 (scalars) / at "
        "least two different positive rates (vectors); distinct by value hash"
    )
    thorough = run.tier == "thorough"
    # ---- translator: the stop rule (both tolerances, strictness, the reductions), the update of `small` and the zero-probability mask are
    #      read off the CURRENT source and must be the model's (condB / stepSt / plogp, the functions loop_invariant .. elementwise_independent are about)
    import gen_tables
    try:
        src = gen_tables.poisson_obligation_source()
        ok, out = gen_tables.obligation_standalone("ObC13", src)
        run.oblige("ObC13 stop rule, update of `small` and 0*log 0 mask of poisson_entropy regenerated from the source = the model's (decide)", ok, out if not ok else "")
        run.extra["translator"] = "poisson_entropy loop shape translated"
    except gen_tables.Untranslatable as e:
        run.extra["translator"] = f"UNTRANSLATABLE ({e}) -- the loop is outside the recognised shape; the obligation is not established on this run and the property is decided by the comparison with the model and the reference series alone"
    rng = run.rng
    warnings.simplefilter("ignore")
    grid = list(np.logspace(-12, 0, 40 if not thorough else 120)) + list(np.linspace(1, 500, 110 if not thorough else 500))
    grid += [0.0, 1e-300, 1e-100, 1e-30, 1e-16, 499.999, 500.0, 0.5, 5.0, 100.0, 250.25]
    grid += [123.0] + [-x for x in (0.5, 5.0, 123.0)]
    grid += [float(x) for x in rng.uniform(0, 500, 20 if not thorough else 100)]
    scal = {}
    for lam in grid:
        scal[lam] = float(np.asarray(poisson_entropy(lam)).reshape(-1)[0])
    resp = driver.run_sharded([{"op": "poisson_entropy", "lams": [fl(abs(l))]} for l in grid], shards=16)
    worst = 0.0
    for lam, r in zip(grid, resp):
        run.case("scalar", lam, lam != 0, sample={"rate": lam, "impl": scal[lam]})
        if "ok" not in r:
            run.corr_fail("scalar", lam, r, None, "driver error"); continue
        ref = b2f(r["ok"]["ref"][0]["b"]); mod = b2f(r["ok"]["vec"][0]["b"])
        run.traces += 1
        err = abs(scal[lam] - ref)
        worst = max(worst, err)
        if not np.isfinite(scal[lam]) or err > 1e-9:
            run.prop_fail("Poisson entropy differs from -sum p_k log p_k by more than 1e-9", {"rate": lam}, {"clause": "accuracy"}, {"impl": scal[lam], "reference": ref})
        if abs(mod - scal[lam]) > 1e-9:
            run.corr_fail("scalar-model", lam, mod, scal[lam])
        if lam == 0 and scal[lam] != 0:
            run.prop_fail("entropy at rate 0 is not 0", {"rate": lam}, {"clause": "zero"}, scal[lam])
    run.extra["max_abs_error_vs_reference"] = worst
    for lam in (0.5, 5.0, 123.0):
        if scal[-lam] != scal[lam]:
            run.prop_fail("sign of the rate is not ignored", {"rate": -lam}, {"clause": "sign"}, [scal[-lam], scal[lam]])
    # ---- vectors / matrices: element-wise independence
    def scalar(l):
        l = float(l)
        if l not in scal:
            scal[l] = float(np.asarray(poisson_entropy(l)).reshape(-1)[0])
        return scal[l]

    for lam in (0, 1, 3, 10, 250, 500):       # integer-typed rates (Python int, NumPy integer scalars and arrays) denote the same rates
        for arg in (lam, np.int64(lam), np.array(lam), np.array([lam], dtype=np.int32)):
            got = float(np.asarray(poisson_entropy(arg), dtype=float).reshape(-1)[0])
            run.case("integer-dtype", [lam, type(arg).__name__, str(getattr(arg, "dtype", ""))], lam > 0)
            want = float(np.asarray(poisson_entropy(float(lam))).reshape(-1)[0])
            if abs(got - want) > 1e-9:
                run.prop_fail("entropy of an integer-typed rate differs from the entropy of the same rate given as a float", {"rate": lam, "given_as": repr(arg)}, {"clause": "accuracy", "dtype": "integer"}, {"impl": got, "float_rate": want})
    vi = np.array([0, 10, 500, 3], dtype=np.int64)
    got = np.asarray(poisson_entropy(vi), dtype=float).reshape(-1)
    run.case("integer-dtype", ["vector", vi.tolist()], True)
    if got.size != 4 or any(abs(float(g) - float(np.asarray(poisson_entropy(float(l))).reshape(-1)[0])) > 1e-9 for g, l in zip(got, vi)):
        run.prop_fail("entropies of an integer-typed vector of rates differ from the scalar values", {"rates": vi}, {"clause": "elementwise", "dtype": "integer"}, {"impl": got})
    Ci = np.array([[3, 1, 2], [0, 10, 1], [4, 0, 0]], dtype=np.int64)
    gj = float(poisson_joint_entropy(Ci)); wj = float(poisson_joint_entropy(Ci.astype(float)))
    run.case("integer-dtype", ["joint", Ci.tolist()], True)
    if abs(gj - wj) > 1e-9:
        run.prop_fail("joint entropy of an integer-typed matrix differs from that of the same numbers as floats", {"C": Ci}, {"clause": "joint", "dtype": "integer"}, {"impl": gj, "float": wj})
    vecs = [np.zeros((2, 2)), np.zeros((3, 1)), np.array([5, 0.5, 100.0]), np.array([1e-30, 5.0]), np.array([0.0, 5.0]), np.array([0.0, 0.0]), np.array([500.0, 1e-12, 0.0, 3.0]),
            np.array([[1.0, 200.0], [0.0, 1e-8]]), np.array([[7.0]]), np.array([2.0]), np.array([[1.0, 50.0, 400.0]]), np.array([[1.0], [50.0], [400.0]])]
    for _ in range(60 if thorough else 20):
        shape = [(int(rng.integers(1, 6)),), (1, int(rng.integers(1, 5))), (int(rng.integers(1, 5)), 1), (int(rng.integers(1, 4)), int(rng.integers(1, 4)))][int(rng.integers(0, 4))]
        mags = 10.0 ** rng.uniform(-30, 2.69, size=shape)
        mags[rng.random(shape) < 0.2] = 0.0
        if rng.random() < 0.3:
            mags = -mags
        if mags.ndim == 2 and min(mags.shape) > 1 and rng.random() < 0.6:
            mags = np.asfortranarray(mags) if rng.random() < 0.5 else np.ascontiguousarray(mags.T).T     # column-major storage / transposed view: same matrix
        vecs.append(mags)
    for shp in ((2, 3), (3, 2), (3, 3), (4, 2)):      # always some genuinely two-dimensional matrices in column-major storage
        m_ = 10.0 ** rng.uniform(-3, 2.5, size=shp)
        vecs.append(np.asfortranarray(m_)); vecs.append(np.ascontiguousarray(m_.T).T[:, ::-1])
    reqs = []
    for v in vecs:
        out = np.asarray(poisson_entropy(np.array(v, copy=True, order="K")), dtype=float)      # (order K: the copy keeps the storage order)
        flat_in = np.abs(v).reshape(-1)
        pos = {float(x) for x in flat_in if x > 0}
        case = {"rates": v}
        run.case("vector", [v.shape, v.tolist()], len(pos) >= 2, sample={"rates": v, "impl": out})
        # shapes: the routine squeezes its result ((n,1)/(1,n) come back as (n,), an all-zero input -- no series term at all --
        # even loses an axis); values are matched element-wise when the sizes agree, by broadcasting otherwise
        try:
            flat_out = out.reshape(-1) if out.size == flat_in.size else np.broadcast_to(out, v.shape).reshape(-1)
        except ValueError:
            run.prop_fail("result cannot be matched element-wise with the input", case, {"clause": "shape"}, [out.shape, v.shape]); continue
        for j, (l, o) in enumerate(zip(flat_in, flat_out)):
            s = scalar(l)
            if not np.isfinite(o) or abs(o - s) > 1e-9:
                run.prop_fail("value returned for a rate inside a vector differs from the value for that rate alone", case,
                              {"clause": "elementwise"}, {"index": j, "rate": float(l), "in_vector": float(o), "alone": s})
                break
        reqs.append({"op": "poisson_entropy", "lams": [fl(x) for x in flat_in]})
    for v, r in zip(vecs, driver.run_sharded(reqs, shards=16)):
        if "ok" not in r:
            run.corr_fail("vector-model", v, r, None, "driver error"); continue
        run.traces += 1
        out = np.asarray(poisson_entropy(v.copy()), dtype=float)
        flat_out = out.reshape(-1) if out.size == v.size else np.broadcast_to(out, v.shape).reshape(-1)
        mod = [b2f(x["b"]) for x in r["ok"]["vec"]]
        if len(mod) != flat_out.size or any(abs(a - b) > 1e-9 for a, b in zip(mod, flat_out)):
            run.corr_fail("vector-model", {"rates": v}, mod, flat_out)
    # ---- history: the same rate buffer refilled in place; nearby rates evaluated one after the other in the same process
    from common import reuse_check
    for it in range(16 if thorough else 6):
        m = int(rng.integers(1, 5))
        a1, a2 = rng.uniform(0, 20, size=m), rng.uniform(0, 300, size=m)
        run.case("history", [a1.tolist(), a2.tolist()], True)
        reuse_check(run, "poisson_entropy", lambda l: np.asarray(poisson_entropy(l), dtype=float).reshape(-1).tolist(), (a1,), (a2,), {"clause": "elementwise", "history": True})
        lam = float(rng.uniform(0, 50)); eps = float(10 ** rng.uniform(-12, -6))
        h1 = float(np.asarray(poisson_entropy(lam)).reshape(-1)[0]); h2 = float(np.asarray(poisson_entropy(lam + eps)).reshape(-1)[0])
        r2 = b2f(driver.run([{"op": "poisson_entropy", "lams": [fl(lam + eps)]}])[0]["ok"]["ref"][0]["b"])
        if abs(h2 - r2) > 1e-9:
            run.prop_fail("entropy of a rate evaluated right after a nearby rate differs from -sum p log p (stale value served)", {"first_rate": lam, "second_rate": lam + eps}, {"clause": "accuracy", "history": True}, {"impl": h2, "reference": r2, "previous_value": h1})
    for lam_small in (3e-9, 2e-9, 1e-10):     # tiny rates after a zero rate (memo tables keyed on rounded rates)
        poisson_entropy(0.0)
        hs = float(np.asarray(poisson_entropy(lam_small)).reshape(-1)[0])
        rs = b2f(driver.run([{"op": "poisson_entropy", "lams": [fl(lam_small)]}])[0]["ok"]["ref"][0]["b"])
        run.case("history", ["after-zero", lam_small], True)
        if abs(hs - rs) > 1e-9 or (hs == 0.0 and rs > 0 and rs > 1e-300 and abs(hs - rs) > 1e-3 * rs):
            run.prop_fail("entropy of a tiny rate evaluated after rate 0 is wrong (stale value served)", {"rate": lam_small}, {"clause": "accuracy", "history": True}, {"impl": hs, "reference": rs})
    # ---- joint entropy
    jreqs, jmeta = [], []
    for _ in range(120 if thorough else 40):
        n = int(rng.integers(1, 7))
        C = rng.uniform(-2, 6, size=(n, n)) * (10.0 ** rng.integers(-2, 2))
        if rng.random() < 0.5:
            C = (C + C.T) / 2
        C0 = C.copy()
        got = float(poisson_joint_entropy(C))
        H = [scalar(abs(C[i, i])) for i in range(n)]
        want = sum(H) + float(np.sum(np.triu(C, 1)))
        run.case("joint", C.tolist(), n >= 2, sample={"C": C, "impl": got})
        if not np.array_equal(C, C0):
            run.prop_fail("argument modified", {"C": C0}, {"clause": "purity"})
        if abs(got - want) > 1e-9 * max(1.0, abs(want)):
            run.prop_fail("joint entropy differs from sum of marginal entropies of the diagonal + strictly upper-triangular entries", {"C": C},
                          {"clause": "joint"}, {"impl": got, "formula": want})
        jmeta.append((C, got)); jreqs.append({"op": "joint_entropy", "H": vec(H), "C": mat(C)})
    for (C, got), r in zip(jmeta, driver.run(jreqs)):
        if "ok" not in r or abs(float(unval(r["ok"])) - got) > 1e-9 * max(1.0, abs(got)):
            run.corr_fail("joint-model", {"C": C}, r, got)
        run.traces += 1
    run.assumptions += [
        "reference series: p_k = exp(-lam + k log lam - sum log i) summed to lam + 40 sqrt(lam) + 60 terms in IEEE double (Lean Float), independent of SciPy",
        "the absolute accuracy clause (1e-9 against the infinite series) is checked numerically (c13_accuracy_partial); element-wise independence is proved",
        "scipy.stats.poisson.pmf is trusted input of the proved loop (abstract pmf)",
    ]
