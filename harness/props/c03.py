"""C03 -- permutation test: surrogates shuffle X only; decision agrees with its p-value."""
from fractions import Fraction

import numpy as np

from common import close, num, quiet, unval
from props.disc_common import NpShim, hash_est_value

ESTIMATORS = ["gaussian", "knn", "kde", "geometric_knn", "poisson"]
_FORM = [0]
from common import call_form  # noqa: E402


def run_shuffle(X, Y, Z, obs, alpha, n, rng_arg, est_fn, information="gaussian", **kw):
    """Run the real shuffle_test with the estimator seam spied. Returns (result, calls, perms)."""
    import causationentropy.core.discovery as D

    calls = []

    def spy(Xp, Yp, Zp=None, **k):
        v = est_fn(Xp, Yp, Zp, **k)
        calls.append((np.array(Xp, copy=True), np.array(Yp, copy=True), None if Zp is None else np.array(Zp, copy=True), dict(k), v))
        return v

    shim = NpShim()
    saved = (D.np, D.conditional_mutual_information)
    from common import SeamBypassed, alias_patches
    aliases = alias_patches(D, [(np.random.default_rng, shim.random.default_rng), (np.random, shim.random)])      # the same objects under other names
    saved_alias = {k_: getattr(D, k_) for k_ in aliases}
    D.np, D.conditional_mutual_information = shim, spy
    for k_, v_ in aliases.items():
        setattr(D, k_, v_)
    try:
        with quiet():
            _FORM[0] += 1      # every documented call form, in turn
            res = call_form(D.shuffle_test, "shuffle_test", _FORM[0], X=X, Y=Y, Z=Z, observed_cmi=obs, alpha=alpha, n_shuffles=n, rng=rng_arg, information=information, **kw)
    finally:
        D.np, D.conditional_mutual_information = saved
        for k_, v_ in saved_alias.items():
            setattr(D, k_, v_)
    if not shim.seeds and not isinstance(rng_arg, np.random.Generator) and n > 0:
        raise SeamBypassed("shuffle_test ran but no generator creation was observed through the discovery module's NumPy names")
    perms = [p for k, p in shim.log if k == "permutation"]
    other = [k for k, p in shim.log if k != "permutation"]
    return res, calls, perms, other


def judge(run, case_desc, sig, X, Y, Z, obs, alpha, n, res, calls, perms, other, X0, Y0, Z0):
    """Property predicates evaluated directly on the implementation's behaviour."""
    bad = lambda what, detail=None: run.prop_fail(what, case_desc, sig, detail)
    if not (np.array_equal(X, X0) and np.array_equal(Y, Y0) and (Z is None or np.array_equal(Z, Z0))):
        bad("caller's arrays modified")
    if len(calls) != n:
        bad("estimator not evaluated on exactly n_shuffles surrogates", {"evaluations": len(calls), "n_shuffles": n})
        return None
    if len(perms) != n or other:
        run.corr_fail("perm-stream", case_desc, f"{n} permutation draws", f"{len(perms)} draws, other generator calls {other[:3]}")
    for k, (Xp, Yp, Zp, kw, v) in enumerate(calls):
        if not np.array_equal(Yp, Y0) or (Z0 is None) != (Zp is None) or (Z0 is not None and not np.array_equal(Zp, Z0)):
            bad("target / conditioning set not passed untouched and aligned to the estimator", {"surrogate": k})
            return None
        if Xp.shape != X0.shape or sorted(map(tuple, Xp.tolist())) != sorted(map(tuple, X0.tolist())):
            bad("surrogate predictor is not a row reordering of X", {"surrogate": k})
            return None
        if k < len(perms) and len(perms[k]) == len(X0) and not np.array_equal(Xp, X0[perms[k]]):
            run.corr_fail("perm-applied", case_desc, "X[perm_k]", "surrogate differs from X permuted by the k-th drawn permutation")
    null = [float(c[4]) for c in calls]
    if not all(np.isfinite(null)) or not np.isfinite(float(obs)):
        return None  # outside the property's quantifier
    cnt = sum(1 for v in null if v >= float(obs))
    p = float(res["P_value"])
    if p != cnt / n:
        bad("P_value is not the fraction of surrogate values >= observed", {"P_value": p, "fraction": f"{cnt}/{n}"})
    if not (float(res["Value"]) == float(obs)):
        bad("Value does not echo the observed value", {"Value": res["Value"], "obs": obs})
    passed = bool(res["Pass"])
    if passed and p > alpha + 1.0 / n + 1e-12:
        bad("significance declared although p > alpha + 1/n_shuffles", {"p": p, "alpha": alpha, "n": n})
    if not passed and p < alpha - 1.0 / n - 1e-12:
        bad("significance withheld although p < alpha - 1/n_shuffles", {"p": p, "alpha": alpha, "n": n})
    if passed and all(v == float(obs) for v in null):
        bad("observed value that merely ties with the whole null declared significant", {"obs": obs, "p": p})
    return null


def check(run, driver):
    import causationentropy.core.discovery as D
    from causationentropy.core.information.conditional_mutual_information import conditional_mutual_information as real_cmi

    run.rule = (
        "real shuffle_test with the estimator seam spied: scripted estimators with tie-free / partially tied / fully tied "
        "(clamp floor 0.0, sentinel) nulls and all five real estimators on small data; Z present/None; alpha in "
        "{0.01,0.05,0.1,0.5,random}; n_shuffles 2..200; int seeds and generator objects; observed value below/inside/tied/above "
        "the null. Non-trivial = null has >=2 distinct values or is fully tied with the observed value; distinct by content hash"
    )
    thorough = run.tier == "thorough"
    # ---- translator: the comparison operators of the verdict and of the p-value are read off the CURRENT source and must be those of
    #      the model's decision (decideTestG_codeShape: with them the generic decision IS decideTest, which the theorems are about)
    import gen_tables
    try:
        sh = gen_tables.shuffle_shape()
        src = ("import CEModel.Discovery\n/-! GENERATED from /repo by harness/gen_tables.py -- do not edit. -/\n"
               f"def Generated.shuffleShape : CE.Disc.DecisionShape := {{ passOp := .{sh['passOp']}, pOp := .{sh['pOp']} }}\n"
               "example : Generated.shuffleShape = CE.Disc.codeShape := by decide\n")
        ok, out = gen_tables.obligation_standalone("ObC03", src)
        run.oblige(f"ObC03 operators read off shuffle_test (Pass: observed {sh['passOp']} threshold; P_value: mean(null {sh['pOp']} observed)) = model's codeShape (decide)", ok, out if not ok else "")
    except gen_tables.Untranslatable as e:
        run.extra["translator"] = f"UNTRANSLATABLE ({e}) -- the tail of shuffle_test no longer has the recognised shape; the obligation is not established on this run and the property is decided by the correspondence alone"
    rng = run.rng
    reqs, meta = [], []
    nscript = 1500 if thorough else 400
    for it in range(nscript):
        N = int(rng.integers(4, 25)); kx = int(rng.integers(1, 3)); kz = int(rng.integers(0, 3))
        X = rng.integers(0, 50, size=(N, kx)).astype(float); Y = rng.integers(0, 50, size=(N, 1)).astype(float)
        Z = rng.integers(0, 50, size=(N, kz)).astype(float) if kz else None
        alpha = float(rng.choice([0.01, 0.05, 0.1, 0.5, 0.25, float(rng.uniform(0.001, 0.999))]))
        n = int(rng.choice([2, 3, 5, 10, 20, 21, 50, 100, 200, int(rng.integers(2, 201))]))
        if not thorough:
            n = min(n, 60)
        mode = ["tiefree", "partial", "tied0", "tiedsentinel", "tiedc"][it % 5]
        levels = {"tiefree": 1 << 20, "partial": int(rng.choice([2, 3, 5])), "tied0": 1, "tiedsentinel": 1, "tiedc": 1}[mode]
        const = {"tied0": 0.0, "tiedsentinel": -500.0, "tiedc": 0.37}.get(mode)
        salt = int(rng.integers(0, 1000))

        def est(Xp, Yp, Zp=None, _levels=levels, _const=const, _salt=salt, **k):
            if _const is not None:
                return _const
            zc = [] if Zp is None else [Zp[:, c] for c in range(Zp.shape[1])]
            # fold multi-column X into one integer column
            xcol = sum(Xp[:, c] * (53 ** c) for c in range(Xp.shape[1]))
            return hash_est_value(xcol, Yp[:, 0], zc, _levels, _salt, False)

        X0, Y0, Z0 = X.copy(), Y.copy(), None if Z is None else Z.copy()
        # choose the observed value
        pre_null = None
        okind = int(rng.integers(0, 5))
        if const is not None and okind < 3:
            obs = const  # ties with the whole null
        elif okind == 3:
            obs = -1.0 if const is None else const - 1.0
        elif okind == 4:
            obs = 2.0 if const is None else const + 1.0
        else:
            obs = est(X, Y, Z)
        seed_arg = int(rng.integers(0, 2**31)) if it % 3 else np.random.default_rng(int(rng.integers(0, 2**31)))
        res, calls, perms, other = run_shuffle(X, Y, Z, obs, alpha, n, seed_arg, est)
        case = {"mode": mode, "N": N, "kx": kx, "kz": kz, "alpha": alpha, "n_shuffles": n, "obs": obs,
                "X": X0, "Y": Y0, "Z": Z0, "seed": seed_arg if isinstance(seed_arg, int) else "generator-object", "salt": salt, "levels": levels}
        null = judge(run, case, {"estimator": "scripted", "mode": mode}, X, Y, Z, obs, alpha, n, res, calls, perms, other, X0, Y0, Z0)
        nontrivial = null is not None and (len(set(null)) >= 2 or all(v == obs for v in null))
        run.case("scripted", [mode, N, kx, kz, alpha, n, obs, salt, X0.tolist()], nontrivial,
                 sample={k: case[k] for k in ("mode", "N", "alpha", "n_shuffles", "obs")} | {"result": {k: float(v) for k, v in res.items()}})
        run.branch(mode)
        if null is not None:
            meta.append((case, res, null)); reqs.append({"op": "shuffle_decide", "null": [num(v) for v in null], "obs": num(obs), "alpha": num(alpha)})
    # ---- sequences: the SAME data tested again at another level / with another shuffle budget / another seed (state between calls)
    for it in range(60 if thorough else 20):
        N = int(rng.integers(6, 20)); kz = int(rng.integers(0, 2))
        X = rng.integers(0, 50, size=(N, 1)).astype(float); Y = rng.integers(0, 50, size=(N, 1)).astype(float)
        Z = rng.integers(0, 50, size=(N, kz)).astype(float) if kz else None
        salt = int(rng.integers(0, 1000)); levels = int(rng.choice([3, 1 << 20]))

        def est(Xp, Yp, Zp=None, _l=levels, _s=salt, **k):
            zc = [] if Zp is None else [Zp[:, c] for c in range(Zp.shape[1])]
            return hash_est_value(Xp[:, 0], Yp[:, 0], zc, _l, _s, False)

        obs = est(X, Y, Z)
        seq = [(0.25, 20, 7), (0.01, 20, 7), (0.01, 12, 7), (0.5, 12, 9), (0.25, 20, 7)]
        for (alpha, n, seed) in seq:
            X0, Y0, Z0 = X.copy(), Y.copy(), None if Z is None else Z.copy()
            res, calls, perms, other = run_shuffle(X, Y, Z, obs, alpha, n, seed, est)
            case = {"mode": "sequence", "N": N, "kz": kz, "alpha": alpha, "n_shuffles": n, "obs": obs, "X": X0, "Y": Y0, "Z": Z0, "seed": seed, "salt": salt, "levels": levels,
                    "sequence_of_(alpha,n_shuffles,seed)": seq}
            null = judge(run, case, {"estimator": "scripted", "mode": "sequence"}, X, Y, Z, obs, alpha, n, res, calls, perms, other, X0, Y0, Z0)
            run.case("sequence", [N, kz, alpha, n, seed, salt, X0.tolist()], null is not None and len(set(null)) >= 2)
            if null is not None:
                meta.append((case, res, null)); reqs.append({"op": "shuffle_decide", "null": [num(v) for v in null], "obs": num(obs), "alpha": num(alpha)})
    # ---- real estimators on small data
    nreal = 60 if thorough else 20
    for it in range(nreal):
        info = ESTIMATORS[it % 5]
        N = int(rng.integers(12, 26)); kz = int(rng.integers(0, 2))
        if info == "poisson":
            X = rng.poisson(3, size=(N, 1)).astype(float); Y = rng.poisson(3, size=(N, 1)).astype(float) + (X if it % 2 else 0)
            Z = rng.poisson(3, size=(N, kz)).astype(float) if kz else None
        else:
            X = rng.standard_normal((N, 1)); Y = rng.standard_normal((N, 1)) + (X if it % 2 else 0)
            Z = rng.standard_normal((N, kz)) if kz else None
        alpha = float(rng.choice([0.05, 0.1, 0.5])); n = int(rng.integers(4, 13))
        if it in (1, 2) or (thorough and it % 10 in (1, 2)):       # longer series with budgets that are not round numbers (kNN, KDE): exactly n surrogates, whatever n * N is
            N = int(rng.integers(110, 140)); n = int(rng.choice([50, 53, 67, 99]))
            X = rng.standard_normal((N, 1)); Y = rng.standard_normal((N, 1)) + X; Z = rng.standard_normal((N, kz)) if kz else None
        kw = dict(metric=["euclidean", "minkowski", "chebyshev", "cityblock"][(it // 5) % 4], k_means=int(rng.integers(1, 5)), bandwidth=["silverman", "scott", 0.8][(it // 5) % 3])

        def est(Xp, Yp, Zp=None, **k):
            import warnings
            with warnings.catch_warnings():
                warnings.simplefilter("ignore")
                return real_cmi(Xp, Yp, Zp, **k)

        X0, Y0, Z0 = X.copy(), Y.copy(), None if Z is None else Z.copy()
        obs = est(X, Y, Z, method=info, metric=kw["metric"], k=kw["k_means"], bandwidth=kw["bandwidth"])
        res, calls, perms, other = run_shuffle(X, Y, Z, obs, alpha, n, int(rng.integers(0, 2**31)), est, information=info, **kw)
        case = {"estimator": info, "N": N, "kz": kz, "alpha": alpha, "n_shuffles": n, "obs": obs, "X": X0, "Y": Y0, "Z": Z0, **kw}
        # settings must reach the estimator seam
        for c in calls:
            if c[3].get("method") != info or c[3].get("k") != kw["k_means"] or c[3].get("metric") != kw["metric"] or c[3].get("bandwidth") != kw["bandwidth"]:
                run.prop_fail("surrogates evaluated with a different estimator/settings than requested", case, {"estimator": info, "clause": "settings"}, c[3]); break
        null = judge(run, case, {"estimator": info}, X, Y, Z, obs, alpha, n, res, calls, perms, other, X0, Y0, Z0)
        run.case("real-" + info, [info, N, kz, alpha, n, X0.tolist()], null is not None and len(set(null)) >= 2,
                 sample={"estimator": info, "N": N, "alpha": alpha, "n_shuffles": n, "obs": obs, "result": {k: float(v) for k, v in res.items()}})
        if null is not None:
            meta.append((case, res, null)); reqs.append({"op": "shuffle_decide", "null": [num(v) for v in null], "obs": num(obs), "alpha": num(alpha)})
    # ---- correspondence with the Lean model of the decision
    resp = driver.run_sharded(reqs)
    for (case, res, null), r in zip(meta, resp):
        if "ok" not in r:
            run.corr_fail("decide", case, r, None, "driver error"); continue
        m = r["ok"]
        run.traces += 1
        thr, p, passed = float(res["Threshold"]), float(res["P_value"]), bool(res["Pass"])
        mp, mthr = unval(m["p"]), unval(m["thr"])
        if float(mp) != p:
            run.corr_fail("p-value", case, mp, p)
        slo, shi = unval(m["slo"]), unval(m["shi"])
        scale = max(1.0, abs(float(mthr)))
        # bracket: NumPy's virtual index may round to the neighbouring order statistic when (n-1)(1-alpha) is within
        # rounding of an integer; the harness accepts the wider bracket [s[lo-1], s[hi+1]] only in that case
        n = len(null); h = (n - 1) * (1 - Fraction(case["alpha"])); frac = h - (h.numerator // h.denominator)
        near_int = min(frac, 1 - frac) < Fraction(1, 10**9)
        in_bracket = slo - Fraction(1, 10**12) * Fraction(scale) <= Fraction(thr) <= shi + Fraction(1, 10**12) * Fraction(scale)
        if not in_bracket and not near_int:
            run.prop_fail("Threshold is not at the (1-alpha) quantile of the surrogate values (outside [s_floor, s_ceil])", case,
                          {"clause": "threshold"}, {"Threshold": thr, "bracket": [float(slo), float(shi)]})
        elif abs(thr - float(mthr)) > 1e-9 * scale:
            run.corr_fail("threshold", case, float(mthr), thr)
        if passed != m["pass"]:
            if abs(float(case["obs"]) - float(mthr)) <= 1e-9 * scale and not all(v == case["obs"] for v in null):
                run.skip("verdict within rounding margin of the exact threshold")
            else:
                run.corr_fail("verdict", case, m["pass"], passed)
    run.assumptions += [
        "np.percentile rounding: the reported threshold is checked against the exact bracket and the exact interpolation (1e-9); the coherence theorems hold for any threshold inside the bracket",
        "non-finite surrogate values are outside the property's quantifier (run for totality only, never judged)",
        "NumPy Generator.permutation is trusted to return a permutation; the permutations themselves are recorded and compared",
    ]
