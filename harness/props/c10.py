"""C10 -- estimates ignore sample order, conditioning-column order and X/Y roles."""
import itertools
import math
import warnings

import numpy as np

ESTIMATORS = ["gaussian", "knn", "kde", "geometric_knn", "poisson"]


def rel_close(a, b):
    if math.isnan(a) or math.isnan(b):
        return math.isnan(a) and math.isnan(b)
    if math.isinf(a) or math.isinf(b):
        return a == b
    return abs(a - b) <= 1e-9 * max(abs(a), abs(b)) + 1e-12


def check(run, driver):
    import importlib

    C = importlib.import_module("causationentropy.core.information.conditional_mutual_information")
    M = importlib.import_module("causationentropy.core.information.mutual_information")
    run.rule = (
        "metamorphic check on the real functions (public dispatcher and the named estimator functions, conditional and unconditional paths): "
        "random joint row permutations, ALL column permutations of Z (k_z <= 3), X<->Y exchange, two identical calls, byte comparison of the "
        "arguments; tie-free continuous samples for every estimator and setting, count samples for the Gaussian and Poisson estimators. "
        "Relative tolerance 1e-9. Non-trivial = N >= 12 and the base value is finite; distinct by content hash"
    )
    thorough = run.tier == "thorough"
    rng = run.rng
    warnings.simplefilter("ignore")

    direct = {
        ("gaussian", False): lambda X, Y, Z, st: M.gaussian_mutual_information(X, Y),
        ("gaussian", True): lambda X, Y, Z, st: C.gaussian_conditional_mutual_information(X, Y, Z),
        ("knn", False): lambda X, Y, Z, st: M.knn_mutual_information(X, Y, metric=st["metric"], k=st["k"]),
        ("knn", True): lambda X, Y, Z, st: C.knn_conditional_mutual_information(X, Y, Z, metric=st["metric"], k=st["k"]),
        ("kde", False): lambda X, Y, Z, st: M.kde_mutual_information(X, Y, bandwidth=st["bandwidth"]),
        ("kde", True): lambda X, Y, Z, st: C.kde_conditional_mutual_information(X, Y, Z, bandwidth=st["bandwidth"]),
        ("geometric_knn", False): lambda X, Y, Z, st: M.geometric_knn_mutual_information(X, Y, metric=st["metric"], k=st["k"]),
        ("geometric_knn", True): lambda X, Y, Z, st: C.geometric_knn_conditional_mutual_information(X, Y, Z, metric=st["metric"], k=st["k"]),
        ("poisson", False): lambda X, Y, Z, st: C.poisson_conditional_mutual_information(X, Y, None),
        ("poisson", True): lambda X, Y, Z, st: C.poisson_conditional_mutual_information(X, Y, Z),
    }
    nper = (6 if thorough else 2)
    for info in ESTIMATORS:
        reps = nper * (1 if info in ("geometric_knn", "poisson") else (6 if info == "kde" else 3))
        for rep in range(reps):
            for cond in (False, True):
                for datakind in (["continuous"] if info in ("knn", "kde", "geometric_knn") else (["count"] if info == "poisson" else ["continuous", "count"])):
                    N = int(rng.integers(12, 31 if info in ("geometric_knn", "poisson") else 46))
                    kx = int(rng.integers(1, 3)); ky = kx if info == "poisson" else int(rng.integers(1, 3))
                    kz = int(rng.integers(2, 4)) if cond else 0
                    if datakind == "count":
                        base = rng.poisson(3.0, size=(N, kx + ky + kz)).astype(float)
                        base[:, kx] += base[:, 0]
                        if kz:
                            base[:, -1] += base[:, 0]
                    else:
                        mix = rng.standard_normal((kx + ky + kz, kx + ky + kz)) * 0.5 + np.eye(kx + ky + kz)
                        if rep % 2:
                            base = rng.uniform(0, 2, size=(N, kx + ky + kz)) @ (mix if rep % 4 == 1 and info != "kde" else np.eye(kx + ky + kz))   # platykurtic data: KDE terms can be negative
                        else:
                            base = rng.standard_normal((N, kx + ky + kz)) @ mix
                    if info == "gaussian" and np.linalg.cond(np.corrcoef(base.T)) > 1e4:
                        # a nearly singular sample correlation (6 columns, a dozen rows) amplifies rounding by its condition number:
                        # "unchanged up to rounding" cannot be judged at 1e-9 there
                        run.skip("gaussian: ill-conditioned sample correlation (cond > 1e4)"); continue
                    if info in ("geometric_knn", "knn") and datakind == "continuous" and (info == "geometric_knn" or rep % 2 == 0):
                        # samples anywhere relative to the origin: exact power-of-two offsets of 2^6 .. 2^26 spacings per column
                        base = base + 2.0 ** rng.integers(6, 27, size=base.shape[1]) * rng.choice([-1.0, 1.0], size=base.shape[1])
                    if info == "knn" and datakind == "continuous" and rep % 3 == 2:
                        # data recorded in very small units (spacings 1e-14 .. 1e-11): the neighbour estimator has no scale of its own
                        base = (base - base.mean(axis=0)) * float(10 ** rng.uniform(-13, -10))
                    X, Y, Z = base[:, :kx], base[:, kx:kx + ky], (base[:, kx + ky:] if cond else None)
                    if rep % 2 == 0 and datakind == "continuous":
                        # the same blocks as column-major (Fortran-ordered) float64 arrays -- what `np.array([z1, z2]).T`, `data.T` or `DataFrame.values` hand over
                        X, Y, Z = np.asfortranarray(X), np.asfortranarray(Y), (None if Z is None else np.asfortranarray(Z))
                    # arguments of different dtypes (single next to double precision; integer counts next to continuous measurements):
                    # the sample is the same whichever argument position a block is passed in
                    # (single precision only for the estimators that compute in double whatever they are given; the geometric and KDE
                    #  estimators work in the precision of their input, where "up to rounding" means float32 rounding, not 1e-9)
                    if datakind == "continuous" and rep % 2 == 1 and info in ("gaussian", "knn"):
                        X = X.astype(np.float32)
                    elif datakind == "count" and info == "gaussian" and rep % 2 == 1:
                        X = X.astype(np.int64); Y = Y + 0.3 * rng.standard_normal(Y.shape)
                    st = {"metric": ["euclidean", "cityblock", "chebyshev"][rep % 3], "k": int(rng.integers(1, 5)), "bandwidth": ["silverman", "scott", 0.6][rep % 3]}
                    path = "Z given" if cond else "Z is None"
                    fns = {"function": lambda a, b, c: float(direct[(info, cond)](a, b, c, st)),
                           "dispatcher": lambda a, b, c: float(C.conditional_mutual_information(a, b, c, method=info, metric=st["metric"], k=st["k"], bandwidth=st["bandwidth"]))}
                    for via, f in fns.items():
                        case = {"estimator": info, "via": via, "path": path, "data": datakind, "N": N, "kx": kx, "ky": ky, "kz": kz, **st, "X": X, "Y": Y, "Z": Z}
                        X0, Y0, Z0 = X.copy(), Y.copy(), None if Z is None else Z.copy()
                        try:
                            v = f(X, Y, Z)
                        except Exception as e:  # noqa
                            run.prop_fail("estimator raises on a well-formed sample", case, {"estimator": info, "path": path, "transformation": "none"}, repr(e)); continue
                        run.case(f"{info}-{via}", [info, via, cond, datakind, N, kx, ky, kz, st, float(base[0, 0])], N >= 12 and math.isfinite(v),
                                 sample={k_: case[k_] for k_ in ("estimator", "via", "path", "data", "N", "kx", "ky", "kz")} | {"value": v})
                        run.branch(f"{info}/{path}")
                        sig = lambda tr: {"estimator": info, "path": path, "transformation": tr}
                        if not (np.array_equal(X, X0) and np.array_equal(Y, Y0) and (Z is None or np.array_equal(Z, Z0))):
                            run.prop_fail("argument array modified", case, sig("purity"))
                        v2 = f(X, Y, Z)
                        if not (v2 == v or (math.isnan(v) and math.isnan(v2))):
                            run.prop_fail("equal arguments give different results", case, sig("repeat"), [v, v2])
                        # the same array objects, refilled in place with jointly permuted rows (hidden caches keyed on object identity)
                        pmb = rng.permutation(N)
                        bx, by, bz = X.copy(), Y.copy(), None if Z is None else Z.copy()
                        v_first = f(bx, by, bz)
                        bx[:] = X[pmb]; by[:] = Y[pmb]
                        if bz is not None:
                            bz[:] = Z[pmb]
                        v_reused = f(bx, by, bz)
                        v_fresh = f(X[pmb].copy(), Y[pmb].copy(), None if Z is None else Z[pmb].copy())
                        if not (v_reused == v_fresh or (math.isnan(v_reused) and math.isnan(v_fresh))):
                            run.prop_fail("equal arguments give different results when the same array objects are reused after being refilled in place", case, sig("buffer_reuse"),
                                          {"reused_buffers": v_reused, "fresh_arrays": v_fresh, "first_call": v_first})
                        # joint row permutation
                        for _ in range(2):
                            pm = rng.permutation(N)
                            vp = f(X[pm], Y[pm], None if Z is None else Z[pm])
                            if not rel_close(v, vp):
                                run.prop_fail("estimate changes when the rows of X, Y and Z are jointly reordered", case, sig("row_perm"), {"base": v, "permuted": vp, "perm": pm}); break
                        # X <-> Y
                        try:
                            vs = f(Y, X, Z)
                            if not rel_close(v, vs):
                                run.prop_fail("estimate changes when X and Y are exchanged", case, sig("swap_xy"), {"I(X;Y|Z)": v, "I(Y;X|Z)": vs})
                        except Exception as e:  # noqa
                            run.prop_fail("exchanging X and Y raises", case, sig("swap_xy"), repr(e))
                        # conditioning-column order
                        if cond:
                            for cp in itertools.permutations(range(kz)):
                                if list(cp) == list(range(kz)):
                                    continue
                                vz = f(X, Y, Z[:, list(cp)])
                                if not rel_close(v, vz):
                                    run.prop_fail("estimate depends on the order of the conditioning columns", case, sig("z_col_perm"), {"base": v, "reordered": vz, "column_order": cp}); break
    # ---- samples of several hundred to a thousand rows, sizes that are not round numbers (blocked / batched evaluation lives there):
    #      joint row order, X <-> Y, with and without a conditioning set
    for it, info in enumerate(["knn", "kde", "gaussian", "geometric_knn", "knn"] * (2 if thorough else 1)):
        N = int(rng.integers(520, 1400 if info != "geometric_knn" else 640))
        N += 1 if N % 128 == 0 else 0
        W = rng.standard_normal((N, 3)) @ (rng.standard_normal((3, 3)) * 0.4 + np.eye(3))
        X, Y, Z = W[:, :1], W[:, 1:2], W[:, 2:]
        st = {"metric": "euclidean", "k": int(rng.integers(1, 4)), "bandwidth": "silverman"}
        for cond in (True, False):
            zz = Z if cond else None
            path = "Z given" if cond else "Z is None"
            f = (lambda a, b, c: float(direct[(info, cond)](a, b, c, st))) if it % 2 == 0 else (
                lambda a, b, c: float(C.conditional_mutual_information(a, b, c, method=info, metric=st["metric"], k=st["k"], bandwidth=st["bandwidth"])))
            v = f(X, Y, zz)
            pm = rng.permutation(N)
            vp = f(X[pm], Y[pm], None if zz is None else zz[pm]); vs = f(Y, X, zz)
            case = {"estimator": info, "path": path, "N": N, **st, "X": X[:4], "note": "first rows shown; data = seeded stream of this run"}
            run.case("large-N", [info, cond, N, st["k"], float(W[0, 0])], True, sample={"estimator": info, "path": path, "N": N, "value": v})
            if not rel_close(v, vp):
                run.prop_fail("estimate changes when the rows of X, Y and Z are jointly reordered", case, {"estimator": info, "path": path, "transformation": "row_perm", "regime": "N>512"}, {"base": v, "permuted": vp})
            if not rel_close(v, vs):
                run.prop_fail("estimate changes when X and Y are exchanged", case, {"estimator": info, "path": path, "transformation": "swap_xy", "regime": "N>512"}, {"I(X;Y|Z)": v, "I(Y;X|Z)": vs})
    # ---- settings history: the same sample evaluated under a SEQUENCE of settings in one process; each value must equal the value of the
    #      jointly row-permuted sample (fresh arrays) under the same settings -- a memo keyed on the data alone answers from the wrong setting
    seqs = {"knn": [dict(metric="euclidean", k=1), dict(metric="euclidean", k=3), dict(metric="chebyshev", k=3), dict(metric="euclidean", k=2)],
            "geometric_knn": [dict(metric="euclidean", k=1), dict(metric="euclidean", k=3), dict(metric="euclidean", k=2), dict(metric="euclidean", k=3)],
            "kde": [dict(bandwidth="silverman"), dict(bandwidth=0.5), dict(bandwidth="scott"), dict(bandwidth=0.9)]}
    for it in range(12 if thorough else 4):
        N = int(rng.integers(14, 26)); kz = int(rng.integers(1, 3))
        W = rng.standard_normal((N, 2 + kz)) @ (rng.standard_normal((2 + kz, 2 + kz)) * 0.4 + np.eye(2 + kz))
        X, Y, Z = W[:, :1].copy(), W[:, 1:2].copy(), W[:, 2:].copy()
        for info in ("knn", "geometric_knn", "kde"):
            for cond in (True, False):
                zz = Z if cond else None
                path = "Z given" if cond else "Z is None"
                if info == "geometric_knn" and not cond:
                    continue        # (the geometric Z=None path drops its settings: known finding of C09, not a history effect)
                for st in seqs[info]:
                    f = lambda a, b, c: float(C.conditional_mutual_information(a, b, c, method=info, **st)) if it % 2 else float(direct[(info, cond)](a, b, c, {"metric": "euclidean", "k": 1, "bandwidth": "silverman", **st}))
                    v = f(X, Y, zz)
                    pm = rng.permutation(N)
                    vp = f(X[pm].copy(), Y[pm].copy(), None if zz is None else zz[pm].copy())
                    run.case("settings-history", [info, cond, str(st), N, float(W[0, 0])], True)
                    if not rel_close(v, vp):
                        run.prop_fail("estimate of a sample under given settings depends on the settings used on the same sample earlier in the process (differs from the value of the jointly row-permuted sample)",
                                      {"estimator": info, "path": path, "N": N, **st, "X": X, "Y": Y, "Z": zz}, {"estimator": info, "path": path, "transformation": "settings_history"}, {"in_sequence": v, "row_permuted_fresh": vp})
    # ---- dedicated stream: geometric estimator on samples at every distance from the origin (offset 2^8 .. 2^17 spacings, one exponent per
    #      case), neighbourhoods thinner than the space (k < d of the stacked blocks): X <-> Y, column order of Z, row order
    for it in range(30 if thorough else 10):
        N = int(rng.integers(12, 20)); kx, ky, kz = 1, int(rng.integers(1, 3)), 2; kk = int(rng.integers(1, 3))
        W = rng.standard_normal((N, kx + ky + kz)) @ (rng.standard_normal((kx + ky + kz, kx + ky + kz)) * 0.4 + np.eye(kx + ky + kz))
        W = W + 2.0 ** (8 + (it % 10) * 2) * rng.choice([-1.0, 1.0], size=W.shape[1]) * rng.uniform(1.0, 1.9, size=W.shape[1]).round(3)
        X, Y, Z = W[:, :kx], W[:, kx:kx + ky], W[:, kx + ky:]
        f = lambda a, b, c: float(C.geometric_knn_conditional_mutual_information(a, b, c, metric="euclidean", k=kk))
        v = f(X, Y, Z)
        case = {"estimator": "geometric_knn", "path": "Z given", "data": f"continuous, offset 2^{8 + (it % 10) * 2} spacings", "N": N, "kx": kx, "ky": ky, "kz": kz, "k": kk, "X": X, "Y": Y, "Z": Z}
        run.case("geometric-offset", [N, ky, kk, it % 10, float(W[0, 0])], math.isfinite(v), sample={k_: case[k_] for k_ in ("estimator", "data", "N", "kx", "ky", "kz", "k")} | {"value": v})
        pm = rng.permutation(N)
        for tr, w_ in (("swap_xy", f(Y, X, Z)), ("z_col_perm", f(X, Y, Z[:, ::-1])), ("row_perm", f(X[pm], Y[pm], Z[pm]))):
            if not rel_close(v, w_):
                run.prop_fail({"swap_xy": "estimate changes when X and Y are exchanged", "z_col_perm": "estimate depends on the order of the conditioning columns",
                               "row_perm": "estimate changes when the rows of X, Y and Z are jointly reordered"}[tr], case, {"estimator": "geometric_knn", "path": "Z given", "transformation": tr}, {"base": v, "transformed": w_})
                break
    # ---- direct entry points with their own argument conventions: the entropy functions (sample + caller-supplied distance matrix,
    #      rate vectors): equal arguments equal results, arguments untouched
    from scipy.spatial.distance import cdist as _cdist
    E = importlib.import_module("causationentropy.core.information.entropy")
    for it in range(24 if thorough else 8):
        N = int(rng.integers(10, 26)); d = int(rng.integers(1, 4)); kk = int(rng.integers(1, 4))
        A = rng.standard_normal((N, d)); Dm = _cdist(A, A)
        A0, D0 = A.copy(), Dm.copy()
        h1 = float(E.geometric_knn_entropy(A, Dm, kk)); h2 = float(E.geometric_knn_entropy(A, Dm, kk))
        run.case("entropy-direct", ["geometric_knn_entropy", N, d, kk, float(A[0, 0])], True)
        if not (np.array_equal(A, A0) and np.array_equal(Dm, D0)):
            run.prop_fail("argument array modified", {"function": "geometric_knn_entropy", "N": N, "d": d, "k": kk, "X": A0}, {"estimator": "geometric_knn", "path": "entropy", "transformation": "purity"},
                          {"sample_changed": not np.array_equal(A, A0), "distance_matrix_changed": not np.array_equal(Dm, D0)})
        elif h1 != h2:
            run.prop_fail("equal arguments give different results", {"function": "geometric_knn_entropy", "N": N, "d": d, "k": kk, "X": A0}, {"estimator": "geometric_knn", "path": "entropy", "transformation": "repeat"}, [h1, h2])
        B = rng.uniform(0, 2, size=(N, d)); B0 = B.copy()
        e1 = float(E.kde_entropy(B, bandwidth="scott")); e2 = float(E.kde_entropy(B, bandwidth="scott"))
        lam = rng.uniform(0, 6, size=int(rng.integers(1, 5))); lam0 = lam.copy()
        p1 = np.asarray(E.poisson_entropy(lam), dtype=float).tolist(); p2 = np.asarray(E.poisson_entropy(lam), dtype=float).tolist()
        if not (np.array_equal(B, B0) and np.array_equal(lam, lam0)) or e1 != e2 or p1 != p2:
            run.prop_fail("an entropy function modifies its argument or is not repeatable", {"X": B0, "rates": lam0}, {"estimator": "kde/poisson", "path": "entropy", "transformation": "purity"}, [e1, e2, p1, p2])
    # ---- dedicated stream: Gaussian estimator with two strongly correlated conditioning columns (correlation 0.999 .. 0.9996: condition
    #      number of the sample correlation matrix a few thousand, far from singular) -- every column order of Z, X <-> Y
    for it in range(30 if thorough else 10):
        N = int(rng.integers(30, 80)); kx, ky = int(rng.integers(1, 3)), int(rng.integers(1, 3)); kz = int(rng.integers(2, 4))
        W = rng.standard_normal((N, kx + ky + kz))
        W[:, 0] += 0.5 * W[:, kx + ky]; W[:, kx] += 0.4 * W[:, kx + ky]
        rho = float(rng.uniform(0.999, 0.9996))
        j1, j2 = (kx + ky, kx + ky + 1) if it % 2 == 0 else (kx + ky + kz - 1, kx + ky)
        W[:, j1] = rho * W[:, j2] + math.sqrt(1 - rho * rho) * rng.standard_normal(N)
        X, Y, Z = W[:, :kx], W[:, kx:kx + ky], W[:, kx + ky:]
        f = (lambda a, b, c: float(C.gaussian_conditional_mutual_information(a, b, c))) if it % 2 else (lambda a, b, c: float(C.conditional_mutual_information(a, b, c, method="gaussian")))
        v = f(X, Y, Z)
        case = {"estimator": "gaussian", "path": "Z given", "data": "continuous, two nearly collinear conditioning columns", "N": N, "kx": kx, "ky": ky, "kz": kz, "X": X, "Y": Y, "Z": Z}
        run.case("gaussian-collinear-z", [N, kx, ky, kz, float(W[0, 0])], True, sample={k_: case[k_] for k_ in ("estimator", "data", "N", "kx", "ky", "kz")} | {"value": v})
        tol = lambda a, b: abs(a - b) <= 1e-9 * max(1.0, abs(a), abs(b)) * 1e3      # (rounding amplified by the condition number ~ 1e3)
        for cp in itertools.permutations(range(kz)):
            if list(cp) != list(range(kz)) and not tol(v, f(X, Y, Z[:, list(cp)])):
                run.prop_fail("estimate depends on the order of the conditioning columns", case, {"estimator": "gaussian", "path": "Z given", "transformation": "z_col_perm"}, {"base": v, "reordered": f(X, Y, Z[:, list(cp)]), "column_order": cp}); break
        if not tol(v, f(Y, X, Z)):
            run.prop_fail("estimate changes when X and Y are exchanged", case, {"estimator": "gaussian", "path": "Z given", "transformation": "swap_xy"}, {"I(X;Y|Z)": v, "I(Y;X|Z)": f(Y, X, Z)})
    # ---- dedicated stream: KDE on platykurtic (uniform) data, where individual KDE information terms are often negative
    for it in range(120 if thorough else 40):
        N = int(rng.integers(12, 46)); kx, ky, kz = int(rng.integers(1, 3)), int(rng.integers(1, 3)), int(rng.integers(1, 4))
        W = rng.uniform(0, 2, size=(N, kx + ky + kz))
        X, Y, Z = W[:, :kx], W[:, kx:kx + ky], W[:, kx + ky:]
        bw = ["silverman", "scott", 0.6][it % 3]
        for path, zz in (("Z given", Z), ("Z is None", None)):
            f = lambda a, b, c: float(C.conditional_mutual_information(a, b, c, method="kde", bandwidth=bw)) if it % 2 else (
                float(C.kde_conditional_mutual_information(a, b, c, bandwidth=bw)))
            case = {"estimator": "kde", "path": path, "data": "uniform", "N": N, "kx": kx, "ky": ky, "kz": kz, "bandwidth": bw, "X": X, "Y": Y, "Z": zz}
            v = f(X, Y, zz)
            run.case("kde-uniform", [N, kx, ky, kz, str(bw), path, float(W[0, 0])], True)
            vs = f(Y, X, zz)
            if not rel_close(v, vs):
                run.prop_fail("estimate changes when X and Y are exchanged", case, {"estimator": "kde", "path": path, "transformation": "swap_xy"}, {"I(X;Y|Z)": v, "I(Y;X|Z)": vs})
            pm = rng.permutation(N)
            vp = f(X[pm], Y[pm], None if zz is None else zz[pm])
            if not rel_close(v, vp):
                run.prop_fail("estimate changes when the rows of X, Y and Z are jointly reordered", case, {"estimator": "kde", "path": path, "transformation": "row_perm"}, {"base": v, "permuted": vp})
            if zz is not None and kz >= 2:
                vz = f(X, Y, zz[:, ::-1])
                if not rel_close(v, vz):
                    run.prop_fail("estimate depends on the order of the conditioning columns", case, {"estimator": "kde", "path": path, "transformation": "z_col_perm"}, {"base": v, "reordered": vz})
    # ---- unconditional Poisson path vs the Lean model (CEModel/PoissonMI.lean): the estimator as a function of the correlation matrix
    from common import mat, unval, vec
    E = importlib.import_module("causationentropy.core.information.entropy")
    reqs, meta = [], []
    for it in range(60 if thorough else 20):
        N = int(rng.integers(15, 60)); kx, ky = int(rng.integers(1, 4)), int(rng.integers(1, 4))
        W = rng.poisson(3.0, size=(N, kx + ky)).astype(float)
        W[:, kx] += W[:, 0]
        X, Y = W[:, :kx], W[:, kx:]
        val = float(C.poisson_conditional_mutual_information(X, Y, None))
        Cm = np.corrcoef(X.T, Y.T)
        s_ = (Cm - np.diag(np.diag(Cm))).sum(axis=0)
        newdiag = np.diag(Cm) - s_
        dcov = newdiag + s_
        H1 = np.atleast_1d(np.asarray(E.poisson_entropy(np.matrix(newdiag)), dtype=float)).reshape(-1)
        H2 = np.atleast_1d(np.asarray(E.poisson_entropy(dcov), dtype=float)).reshape(-1)
        if H1.size != kx + ky or H2.size != kx + ky:
            continue
        run.case("poisson-unconditional-model", [N, kx, ky, float(W[0, 0])], True, sample={"N": N, "kx": kx, "ky": ky, "impl": val})
        meta.append(({"N": N, "kx": kx, "ky": ky, "X": X, "Y": Y}, val))
        reqs.append({"op": "poisson_mi", "C": mat(Cm), "H": vec(list(H1) + list(H2))})
    for (case, val), r in zip(meta, driver.run(reqs)):
        if "ok" not in r:
            run.corr_fail("poisson-unconditional-model", case, r, val, "driver error"); continue
        run.traces += 1
        m = float(unval(r["ok"]))
        if abs(m - val) > 1e-9 * max(1.0, abs(val)):
            run.corr_fail("poisson-unconditional-model", case, m, val, "model of the Z=None Poisson branch (function of corrcoef) differs from the implementation")
    # the Poisson conditional path with k_x != k_y (part of the known finding)
    N = 20
    Xc = rng.poisson(3.0, size=(N, 2)).astype(float); Yc = rng.poisson(3.0, size=(N, 1)).astype(float); Zc = rng.poisson(3.0, size=(N, 2)).astype(float)
    run.case("poisson-shapes", [Xc.tolist()], True)
    try:
        C.poisson_conditional_mutual_information(Xc, Yc, Zc)
    except Exception as e:  # noqa
        run.prop_fail("Poisson conditional estimator raises when k_x != k_y", {"kx": 2, "ky": 1, "kz": 2, "X": Xc, "Y": Yc, "Z": Zc},
                      {"estimator": "poisson", "path": "Z given", "transformation": "shape_kx_ne_ky"}, repr(e))
    run.assumptions += [
        "tie-free continuous samples for the neighbour-based estimators (neighbour ranks are not defined under ties)",
        "geometric-kNN row-permutation invariance rests on the SVD-based local correction being a function of the neighbourhood (hypothesis in Lean, checked here on the real function)",
        "tolerance: |a-b| <= 1e-9 max(|a|,|b|) + 1e-12",
    ]
