"""C04 -- false discoveries are controlled at the requested level under independence."""
import math
import warnings
from concurrent.futures import ProcessPoolExecutor
from fractions import Fraction

import numpy as np

from common import quiet
from props import c03

ESTIMATORS = ["gaussian", "knn", "kde", "geometric_knn", "poisson"]
BUDGET = 1e-9


def level_bound(alpha: float, n: int) -> Fraction:
    """(n - floor((n-1)(1-alpha))) / (n+1): the bound proved in CEProofs/C04.lean (`shuffle_level_prob`)."""
    h = (n - 1) * (1 - Fraction(alpha))
    lo = h.numerator // h.denominator
    return Fraction(n - lo, n + 1)


def binom_tail(m: int, q: float, r: int) -> float:
    """P(Bin(m, q) >= r), exact summation in log space."""
    if r <= 0:
        return 1.0
    if q >= 1:
        return 1.0
    tot = 0.0
    for k in range(r, m + 1):
        tot += math.exp(math.lgamma(m + 1) - math.lgamma(k + 1) - math.lgamma(m - k + 1) + k * math.log(q) + (m - k) * math.log1p(-q))
    return min(1.0, tot)


def _one_test(args):
    try:
        return _one_test_(args)
    except Exception as e:  # noqa  (an exception of the implementation in a worker: reported by the parent with the input)
        import traceback
        return {"error": repr(e), "traceback": traceback.format_exc()[-1200:], "args": list(args)}


def _one_test_(args):
    info, kind, N, kz, alpha, n, seed, k = args
    from causationentropy.core.discovery import shuffle_test
    from causationentropy.core.information.conditional_mutual_information import conditional_mutual_information as cmi

    rng = np.random.default_rng(seed)
    if kind == "count":
        dt = float if seed % 2 else np.int64          # counts as floats, or as the integers a sampler returns
        X = rng.poisson(3.0, size=(N, 1)).astype(dt); Y = rng.poisson(2.0, size=(N, 1)).astype(dt)
        Z = rng.poisson(3.0, size=(N, kz)).astype(dt) if kz else None
    else:
        X = rng.standard_normal((N, 1)); Y = rng.standard_normal((N, 1)) ** (3 if seed % 2 else 1)
        Z = rng.standard_normal((N, kz)) if kz else None
    with warnings.catch_warnings():
        warnings.simplefilter("ignore")
        obs = cmi(X, Y, Z, method=info, metric="euclidean", k=k, bandwidth="silverman")
        # (a non-finite observed value -- tied count data under the neighbour estimators -- is tested like any other: the level
        #  bound speaks about the verdict, whatever the statistic)
        res = shuffle_test(X, Y, Z, obs, alpha=alpha, n_shuffles=n, rng=int(rng.integers(0, 2**31)), information=info, metric="euclidean", k_means=k, bandwidth="silverman")
    return bool(res["Pass"]), float(res["P_value"]), float(obs)


def _one_discovery(args):
    try:
        return _one_discovery_(args)
    except Exception as e:  # noqa
        import traceback
        return {"error": repr(e), "traceback": traceback.format_exc()[-1200:], "args": list(args)}


def _one_discovery_(args):
    info, method, n_vars, L, T, alpha, n, seed, kind, k = args[:10]
    alpha_f = args[10] if len(args) > 10 else alpha      # (forward level, when different from the final, backward, level)
    from common import EntryPoints
    discover_network = EntryPoints("discover_network", "causationentropy.core.discovery", "causationentropy.core", "causationentropy")   # every public path, in turn
    rng = np.random.default_rng(seed)
    data = rng.poisson(3.0, size=(T, n_vars)).astype(float if seed % 2 else np.int64) if kind == "count" else rng.standard_normal((T, n_vars))
    with warnings.catch_warnings(), quiet():
        warnings.simplefilter("ignore")
        G = discover_network(data, method=method, information=info, max_lag=L, alpha_forward=alpha_f, alpha_backward=alpha, n_shuffles=n, k_means=k)
    return G.number_of_edges() / float(n_vars * n_vars * L)


def _errors_out(run, results, what):
    """exceptions raised by the implementation inside worker processes -> property failures (first few), entries replaced by None"""
    out, seen = [], 0
    for r in results:
        if isinstance(r, dict) and "error" in r:
            seen += 1
            if seen <= 3:
                run.prop_fail(f"{what} raises on independent data the property quantifies over", {"worker_args": r["args"], "exception": r["error"]},
                              {"clause": "total"}, r["traceback"])
            out.append(None)
        else:
            out.append(r)
    return out


def check(run, driver):
    run.rule = (
        "(a) C03's correspondence of the real shuffle_test with the Lean decision model (same function, the level theorem is about it); "
        "(b) measurement: rejection frequency of the real shuffle_test on independent continuous and count data for the five estimators "
        "against the PROVED level (n-floor((n-1)(1-alpha)))/(n+1) by an exact binomial tail; (c) measurement: fraction of candidate links "
        "reported by discover_network on i.i.d. noise, both oCSE variants (Hoeffding bound). Non-trivial = finite observed statistic; distinct by seed"
    )
    thorough = run.tier == "thorough"
    # (a) the tie of the function the theorem is about
    c03.check(run, driver)
    rule = run.rule
    run.rule = rule
    rng = run.rng
    # (b) single-test level
    plans = []
    for info in ESTIMATORS:
        cheap = info in ("gaussian", "knn", "kde")
        m = (1000 if cheap else 120) if thorough else (300 if cheap else (48 if info == "geometric_knn" else 32))
        kind = "count" if info == "poisson" else "continuous"
        alpha, n = (0.05, 19) if not thorough else (0.05, 39)
        if info == "poisson":
            n = 9 if not thorough else 19
        N = 30 if cheap else 20
        plans.append((info, kind, N, alpha, n, m))
        if cheap:
            plans.append((info, "count" if info == "gaussian" else kind, N, 0.1, 10, m))
        if info in ("knn", "kde"):      # count-valued data under the neighbour / kernel estimators (many exact ties; estimates can be non-finite)
            plans.append((info, "count", N, 0.1, 10, m))
    ntests = len(plans) + 8
    tasks = []
    for pi, (info, kind, N, alpha, n, m) in enumerate(plans):
        for t in range(m):
            tasks.append((info, kind, N, t % 2, alpha, n, int(rng.integers(0, 2**31)), 3))
    with ProcessPoolExecutor(16) as ex:
        results = list(ex.map(_one_test, tasks, chunksize=4))
    results = _errors_out(run, results, "shuffle_test")
    idx = 0
    table = []
    for (info, kind, N, alpha, n, m) in plans:
        rs = [r for r in results[idx: idx + m] if r is not None]; idx += m
        rej = sum(1 for r in rs if r[0]); mm = len(rs)
        q = float(level_bound(alpha, n))
        tail = binom_tail(mm, q, rej) if mm else 1.0
        tied = sum(1 for r in rs if r[1] == 1.0 and r[0])
        row = {"estimator": info, "data": kind, "alpha": alpha, "n_shuffles": n, "trials": mm, "rejections": rej, "proved_level": q,
               "alpha_plus_inv_n": alpha + 1 / n, "binomial_tail": tail}
        table.append(row)
        for r in rs:
            run.case("level-" + info, [info, kind, alpha, n, r[2], r[1]], True)
        if tail < BUDGET / ntests:
            run.prop_fail("under independence the test declares significance more often than the proved level allows", row,
                          {"clause": "level", "estimator": info}, {"passes_with_p_equal_1": tied})
    run.extra["level_measurements"] = table
    # (c) whole-network fraction on white noise
    dplans = []
    for info in (["gaussian", "knn", "kde"] if not thorough else ESTIMATORS):
        for method in ("standard", "alternative"):
            cheap = info in ("gaussian", "knn", "kde")
            m = (400 if cheap else 32) if thorough else (128 if info != "kde" else 64)
            dplans.append((info, method, m, "count" if info == "poisson" else "continuous"))
    for method in ("standard", "alternative"):       # count-valued white noise (integer and float presentations) under the default estimator
        dplans.append(("gaussian", method, 400 if thorough else 128, "count"))
    dtasks = []
    for info, method, m, kind_ in dplans:
        for t in range(m):
            dtasks.append((info, method, 3, 2, 40 if info in ("geometric_knn", "poisson") else 60, 0.05, 19 if info not in ("poisson",) else 9,
                           int(rng.integers(0, 2**31)), kind_, 3))
    with ProcessPoolExecutor(16) as ex:
        fr = list(ex.map(_one_discovery, dtasks, chunksize=2))
    fr = [1.0 if x is None else x for x in _errors_out(run, fr, "discover_network")]
    idx = 0
    dtable = []
    for info, method, m, kind_ in dplans:
        f = fr[idx: idx + m]; idx += m
        mean = float(np.mean(f))
        slack = math.sqrt(math.log(ntests / BUDGET) / (2 * m))
        row = {"estimator": info, "method": method, "data": kind_, "runs": m, "mean_fraction_of_candidate_links": mean, "hoeffding_slack": slack, "alarm_above": 5 * 0.05 + slack}
        dtable.append(row)
        for x in f:
            run.case("noise-" + info + "-" + method, [info, method, x, len(run.distinct)], True)
        if mean - slack > 5 * 0.05:
            run.prop_fail("on independent white noise the discovered network contains a large fraction of the candidate links", row,
                          {"clause": "network", "estimator": info, "method": method})
    # (c') a permissive screening level with a strict final level: the network is still governed by the FINAL (backward) level
    splans = [("gaussian", m_) for m_ in ("standard", "alternative")] + ([("knn", "standard"), ("kde", "alternative")] if thorough else [])
    a_f, a_b, n_s = 0.5, 0.02, 49
    m_s = 4096 if thorough else 2048
    stasks = [(info, method, 3, 2, 60, a_b, n_s, int(rng.integers(0, 2**31)), "continuous", 3, a_f) for info, method in splans for _ in range(m_s if info == "gaussian" else 512)]
    with ProcessPoolExecutor(16) as ex:
        sfr = list(ex.map(_one_discovery, stasks, chunksize=16))
    sfr = [1.0 if x is None else x for x in _errors_out(run, sfr, "discover_network")]
    idx = 0
    for info, method in splans:
        m = m_s if info == "gaussian" else 512
        f = sfr[idx: idx + m]; idx += m
        mean = float(np.mean(f)); slack = math.sqrt(math.log(ntests / BUDGET) / (2 * m)); lvl = float(level_bound(a_b, n_s))
        row = {"estimator": info, "method": method, "runs": m, "alpha_forward": a_f, "alpha_backward": a_b, "n_shuffles": n_s, "mean_fraction_of_candidate_links": mean,
               "hoeffding_slack": slack, "proved_single_test_level": lvl, "alarm_above": 5 * lvl + slack}
        dtable.append(row)
        run.case("noise-screening-" + info + "-" + method, [info, method, mean], True)
        if mean - slack > 5 * lvl:
            run.prop_fail("on independent white noise, with a permissive forward and a strict backward level, the network keeps a fraction of the candidate links far above the final level",
                          row, {"clause": "network", "estimator": info, "method": method})
    run.extra["network_measurements"] = dtable
    run.extra["explanation"] = (
        "Proof: shuffle_level (every statistic, every data set, N, n, alpha) + the tie of shuffle_test to the model. The literal bound "
        "alpha+1/n holds under the decidable side condition SC(alpha,n) (level_le_alpha_plus_inv_n); without it only c04_level_partial is "
        "proved (literal_bound_fails exhibits (0.05, 2)). The frequencies above are measurements with a 1e-9 false-alarm budget, not proofs."
    )
    run.assumptions += [
        "rows of the tested predictor are exchangeable given (Y,Z) under the null (that is the hypothesis of the property)",
        "Generator.permutation is uniform (trusted)",
        "the network-level sentence involves arg-max selection before testing and is only measured",
    ]
