"""C18 -- synthetic generators emit data that their returned ground truth explains."""
import random
from fractions import Fraction

import networkx as nx
import numpy as np

from common import close, mat, num, patched, unval, vec


class RecGen:
    """Recording proxy around a real numpy Generator."""

    def __init__(self, gen, log):
        self._g, self._log = gen, log

    def random(self, *a, **k):
        r = self._g.random(*a, **k)
        self._log.append(("random", np.array(r, copy=True)))
        return r

    def standard_normal(self, *a, **k):
        r = self._g.standard_normal(*a, **k)
        self._log.append(("standard_normal", np.array(r, copy=True)))
        return r

    def poisson(self, lam, *a, **k):
        r = self._g.poisson(lam, *a, **k)
        self._log.append(("poisson", (np.array(lam, copy=True), np.array(r, copy=True))))
        return r

    def __getattr__(self, name):
        self._log.append(("other:" + name, None))
        return getattr(self._g, name)


class NpShim:
    def __init__(self):
        self.log = []
        self.seeds = []
        outer = self

        class R:
            def default_rng(self_, seed=None):
                outer.seeds.append(seed)
                return RecGen(np.random.default_rng(seed), outer.log)

            def __getattr__(self_, name):
                outer.log.append(("global:" + name, None))
                return getattr(np.random, name)

        self.random = R()

    def __getattr__(self, name):
        return getattr(np, name)


import contextlib


@contextlib.contextmanager
def shimmed(S, shim):
    """`np` of the generators' module replaced by the recording shim -- and the same objects under other names
    (`from numpy.random import default_rng`, `import numpy.random as npr`)"""
    import importlib
    from common import alias_patches
    mod = importlib.import_module("causationentropy.datasets.synthetic")
    real_np = mod.np
    al = alias_patches(mod, [(np.random.default_rng, shim.random.default_rng), (np.random, shim.random)])
    saved = {k_: getattr(mod, k_) for k_ in al}
    mod.np = shim
    for k_, v_ in al.items():
        setattr(mod, k_, v_)
    try:
        yield
    finally:
        mod.np = real_np
        for k_, v_ in saved.items():
            setattr(mod, k_, v_)


def _odd_user_graph(n, rng):
    """a user-built digraph: nodes 0..n-1 inserted in no particular order, self-loops (own-history terms) allowed and often dominant"""
    G = nx.DiGraph()
    G.add_nodes_from(int(i) for i in rng.permutation(n))
    for i in rng.permutation(n):
        for j in rng.permutation(n):
            if (i == j and rng.random() < 0.6) or (i != j and rng.random() < 0.25):
                G.add_edge(int(i), int(j))
    return G


def check(run, driver):
    from common import ModuleEntryPoints, call_form
    S = ModuleEntryPoints("causationentropy.datasets.synthetic", "causationentropy.datasets")     # both public paths, in turn

    run.rule = (
        "linear_stochastic_gaussian_process and poisson_coupled_oscillators over random seeds, sizes, edge probabilities, "
        "user-supplied graphs (cyclic, acyclic, empty), rho, epsilon, coupling; recorded generator draws replayed through the "
        "Lean model (exact rationals). Non-trivial = graph has an edge and T >= 3; distinct by parameter hash"
    )
    thorough = run.tier == "thorough"
    rng = run.rng
    FLOOR = 0.1
    # ---- translator: the rate handed to rng.poisson in the double loop is regenerated from the CURRENT source and proved equal
    #      to the model's poissonRate with floor 0.1 (the function rate_formula / rate_ge_floor / rate_eq are about), for all inputs
    import gen_tables
    try:
        src = gen_tables.poisson_rate_obligation_source()
        ok, out = gen_tables.obligation_standalone("ObC18", src)
        run.oblige("ObC18 Poisson rate line regenerated from the source = model's poissonRate (floor 0.1), for all lambda, coupling, adjacency, previous row, node", ok, out if not ok else "")
        run.extra["translator"] = "poisson_coupled_oscillators rate line translated (loop nest + straight-line subset -> Lean over Rat)"
    except gen_tables.Untranslatable as e:
        run.extra["translator"] = f"UNTRANSLATABLE ({e}) -- the rate computation is outside the recognised loop shape; the obligation is not established on this run and the property is decided by the recorded rate arguments of every rng.poisson call alone"
    reqs, meta = [], []
    nlin = 120 if thorough else 40
    for it in range(nlin):
        n = int(rng.integers(1, 9)); T = int(rng.integers(2, 40)); p = float(rng.choice([0.0, 1.0, rng.random()]))
        rho = float(rng.uniform(0.05, 0.95)); eps = float(10 ** rng.uniform(-3, 1)); seed = int(rng.integers(0, 10**6)) if it % 7 else 0      # (seed 0 is a seed like any other)
        kind = it % 4
        G = None
        if kind == 1:
            G = nx.gnp_random_graph(n, 0.5, seed=seed, directed=True) if it % 8 == 1 else _odd_user_graph(n, rng)
        elif kind == 2:  # acyclic
            G = nx.DiGraph(); G.add_nodes_from(range(n)); G.add_edges_from((i, j) for i in range(n) for j in range(i + 1, n) if rng.random() < 0.5)
        elif kind == 3:  # cycle (directed) or an undirected user-supplied graph
            if it % 8 == 3:
                G = nx.DiGraph(); G.add_nodes_from(range(n)); G.add_edges_from((i, (i + 1) % n) for i in range(n))
            else:
                G = nx.gnp_random_graph(n, 0.6, seed=seed, directed=False)
        cfg = dict(rho=rho, n=n, T=T, p=p, epsilon=eps, seed=seed)
        shim = NpShim()
        np.random.seed(seed % 1000); random.seed(seed % 77)
        st_np, st_py = np.random.get_state()[1].copy(), random.getstate()
        Gsnap = None if G is None else (list(G.nodes(data=True)), [(a, b, dict(d)) for a, b, d in G.edges(data=True)])
        with shimmed(S, shim):
            XY, A = call_form(S.linear_stochastic_gaussian_process, "linear_stochastic_gaussian_process", it, G=G, **cfg)      # the SAME graph object is handed in on every call; every documented call form in turn
        globals_untouched = np.array_equal(st_np, np.random.get_state()[1]) and st_py == random.getstate()
        # same seed again, after unrelated global RNG activity
        np.random.rand(5); random.random()
        XY2, A2 = S.linear_stochastic_gaussian_process(G=G, **cfg)
        if G is not None and Gsnap != (list(G.nodes(data=True)), [(a, b, dict(d)) for a, b, d in G.edges(data=True)]):
            run.prop_fail("the user-supplied graph was modified by the generator (a later call with the same graph and seed no longer returns the same data)",
                          {"generator": "linear", **cfg}, {"clause": "determinism", "generator": "linear"})
        Guse = G if G is not None else nx.erdos_renyi_graph(n, p, seed=seed, directed=True)
        nontrivial = Guse.number_of_edges() > 0 and T >= 3
        case = {"generator": "linear", **cfg, "graph": "default" if G is None else ["supplied", sorted(Guse.edges())]}
        run.case("linear", case, nontrivial, sample=case)
        if not (np.array_equal(XY, XY2) and np.array_equal(A, A2)):
            run.prop_fail("same seed gives different output", case, {"clause": "determinism", "generator": "linear"})
        else:
            XY_keep, A_keep = XY.copy(), A.copy()
            A2 *= 0; A2 += 7; XY2 *= 0
            XY3b, A3b = S.linear_stochastic_gaussian_process(G=G, **cfg)
            if not (np.array_equal(XY_keep, XY3b) and np.array_equal(A_keep, A3b)):
                run.prop_fail("same seed gives different output after the caller edited the previously returned arrays in place", case, {"clause": "determinism", "generator": "linear", "history": "returned arrays edited"})
        if not globals_untouched or any(k.startswith("global:") for k, _ in shim.log):
            run.prop_fail("global random generator read or advanced", case, {"clause": "determinism", "generator": "linear"})
        if XY.shape != (T, n) or A.shape != (n, n):
            run.prop_fail("shape", case, {"clause": "shape", "generator": "linear"}, [XY.shape, A.shape])
            continue
        AdjT = nx.to_numpy_array(Guse).T
        # support on the transposed graph
        if np.any((A != 0) & (AdjT == 0)):
            run.prop_fail("A has an entry outside the transposed graph", case, {"clause": "support", "generator": "linear"})
        # spectral radius
        rad = float(np.max(np.abs(np.linalg.eigvals(A)))) if n else 0.0
        acyclic = nx.is_directed_acyclic_graph(Guse) if Guse.is_directed() else Guse.number_of_edges() == 0
        want = 0.0 if acyclic else rho
        # (acyclic: A is nilpotent because its support lies in an acyclic graph -- true radius 0; LAPACK's value for a
        #  nilpotent matrix is only accurate to eps^(1/n), so it is not judged numerically)
        if not acyclic and abs(rad - want) > 1e-6 * max(1, want):
            run.prop_fail("spectral radius of A is not rho (0 if acyclic)", case, {"clause": "radius", "generator": "linear"}, {"radius": rad, "want": want})
        draws = [v for k, v in shim.log if k == "standard_normal"]
        unif = [v for k, v in shim.log if k == "random"]
        if len(draws) != T or len(unif) != 1:
            run.corr_fail("linear-draws", case, f"{T} normal draws, 1 uniform draw", f"{len(draws)}, {len(unif)}")
            continue
        W = np.array(draws)
        # residual relation with the RETURNED A (property statement), exact rational evaluation of the model
        meta.append(("linear", case, XY)); reqs.append({"op": "linear_series", "A": mat(A), "eps": num(eps), "w": mat(W)})
        # A itself from the recorded R, the graph and LAPACK's radius of the unscaled matrix
        Rm = 2 * (unif[0] - 0.5)
        A0 = AdjT * Rm
        r0 = float(np.max(np.abs(np.linalg.eigvals(A0)))) if n else 0.0
        meta.append(("buildA", case, A)); reqs.append({"op": "build_a", "adjT": mat(AdjT), "R": mat(Rm), "rad": num(r0), "thresh": num(1e-12), "rho": num(rho)})
        # exact linearity in epsilon: second run with another epsilon
        cfg2 = dict(cfg); cfg2["epsilon"] = eps * 3.0
        XY3, _ = S.linear_stochastic_gaussian_process(G=G, **cfg2)
        if not np.allclose(XY3 / (eps * 3.0), XY / eps, rtol=1e-10, atol=1e-300):
            run.prop_fail("series is not linear in epsilon", case, {"clause": "linear_in_eps", "generator": "linear"})
    # ---- the same graph object REWIRED between two calls (node and edge counts unchanged) must behave like a fresh graph
    for it in range(30 if thorough else 10):
        n = int(rng.integers(3, 8)); seed = int(rng.integers(0, 10**6)) if it % 7 else 0      # (seed 0 is a seed like any other)
        G = nx.gnp_random_graph(n, 0.5, seed=seed, directed=True)
        if G.number_of_edges() == 0:
            continue
        S.linear_stochastic_gaussian_process(0.5, n=n, T=4, seed=seed, G=G); S.poisson_coupled_oscillators(n=n, T=4, seed=seed, G=G)
        a, b = list(G.edges())[int(rng.integers(0, G.number_of_edges()))]
        G.remove_edge(a, b)
        cand = [(x, y) for x in range(n) for y in range(n) if x != y and not G.has_edge(x, y) and (x, y) != (a, b)]
        if not cand:
            G.add_edge(a, b); continue
        G.add_edge(*cand[int(rng.integers(0, len(cand)))])
        fresh = nx.DiGraph(); fresh.add_nodes_from(G.nodes()); fresh.add_edges_from(G.edges())
        case = {"generator": "both", "n": n, "seed": seed, "edges_after_rewiring": sorted(G.edges())}
        run.case("rewired-graph", [n, seed, sorted(G.edges())], True)
        x1, a1 = S.linear_stochastic_gaussian_process(0.5, n=n, T=6, seed=seed, G=G); x2, a2 = S.linear_stochastic_gaussian_process(0.5, n=n, T=6, seed=seed, G=fresh)
        y1, b1 = S.poisson_coupled_oscillators(n=n, T=6, seed=seed, G=G); y2, b2 = S.poisson_coupled_oscillators(n=n, T=6, seed=seed, G=fresh)
        if not (np.array_equal(x1, x2) and np.array_equal(a1, a2)):
            run.prop_fail("a user-supplied graph that was rewired between calls gives different data than a fresh graph with the same edges (stale state)", case, {"clause": "determinism", "generator": "linear"})
        if not (np.array_equal(y1, y2) and np.array_equal(b1, b2)) or not np.array_equal(b1, nx.to_numpy_array(G)):
            run.prop_fail("Poisson network: returned matrix is not the 0/1 adjacency of the graph used after the graph object was rewired between calls", case, {"clause": "adjacency", "generator": "poisson"})
    # ------------------------------------------------------------ Poisson network
    npoi = 120 if thorough else 40
    pooled = []
    for it in range(npoi):
        n = int(rng.integers(1, 8)); T = int(rng.integers(2, 30)); p = float(rng.choice([0.0, 1.0, rng.random()]))
        lam = float(rng.choice([0.0, 0.03, 0.05, 0.09, 2.0, rng.uniform(0, 5)])); c = float(rng.choice([0.0, 0.3, rng.uniform(0, 1.5)])); seed = int(rng.integers(0, 10**6)) if it % 7 else 0      # (seed 0 is a seed like any other)
        if it % 10 == 5:       # a super-critical network (coupling * in-degree > 1): the rates grow geometrically to 1e8..1e11 -- large, and still inside what NumPy's sampler accepts
            n = int(rng.integers(2, 5)); p = 1.0; lam = float(rng.choice([1.0, 2.0, 5.0])); g = float(rng.choice([2.0, 3.0])); c = g / (n - 1)
            T = int(np.log(10.0 ** float(rng.uniform(8.5, 11))) / np.log(g))
        G = None
        if it % 3 == 1:
            G = nx.gnp_random_graph(n, 0.4, seed=seed, directed=True) if it % 2 else _odd_user_graph(n, rng)
            if it % 2:
                S.linear_stochastic_gaussian_process(0.5, n=n, T=3, seed=seed, G=G)   # the same graph object served another generator before
        # keep the rates representable: a super-critical network (coupling * in-degree > 1) grows geometrically and NumPy's sampler
        # rejects rates above ~9e18 -- a limit of the runtime, not of the generator under test
        while it % 10 != 5 and (max(1.0, c * n) ** T) * (lam + 1.0) > 1e12:       # (the super-critical cases above are sized exactly: growth factor g per step, g**T <= 1e11)
            c = c / 2
        cfg = dict(n=n, T=T, p=p, lambda_base=lam, coupling_strength=c, seed=seed)
        shim = NpShim()
        st_np, st_py = np.random.get_state()[1].copy(), random.getstate()
        with shimmed(S, shim):
            X, A = call_form(S.poisson_coupled_oscillators, "poisson_coupled_oscillators", it, G=G, **cfg)
        globals_untouched = np.array_equal(st_np, np.random.get_state()[1]) and st_py == random.getstate()
        np.random.rand(3)
        X2, A2 = S.poisson_coupled_oscillators(G=G, **cfg)
        Guse = G if G is not None else nx.erdos_renyi_graph(n, p, seed=seed, directed=True)
        case = {"generator": "poisson", **cfg, "graph": "default" if G is None else ["supplied", sorted(Guse.edges())]}
        run.case("poisson", case, Guse.number_of_edges() > 0 and T >= 3, sample=case)
        if not (np.array_equal(X, X2) and np.array_equal(A, A2)):
            run.prop_fail("same seed gives different output", case, {"clause": "determinism", "generator": "poisson"})
        else:
            # the caller owns what was returned: editing it in place must not reach a later call with the same arguments
            X_keep, A_keep = X.copy(), A.copy()
            A2 *= 0; A2 += 7; X2 *= 0
            X3, A3 = S.poisson_coupled_oscillators(G=G, **cfg)
            if not (np.array_equal(X_keep, X3) and np.array_equal(A_keep, A3)):
                run.prop_fail("same seed gives different output after the caller edited the previously returned arrays in place", case, {"clause": "determinism", "generator": "poisson", "history": "returned arrays edited"})
        if not globals_untouched or any(k.startswith("global:") for k, _ in shim.log):
            run.prop_fail("global random generator read or advanced", case, {"clause": "determinism", "generator": "poisson"})
        if X.shape != (T, n):
            run.prop_fail("shape", case, {"clause": "shape", "generator": "poisson"}, X.shape); continue
        if not np.array_equal(A, nx.to_numpy_array(Guse)) or not np.all((A == 0) | (A == 1)):
            run.prop_fail("returned matrix is not the 0/1 adjacency of the graph used", case, {"clause": "adjacency", "generator": "poisson"})
        if np.any(X < 0) or np.any(X != np.round(X)):
            run.prop_fail("counts are not non-negative integers", case, {"clause": "counts", "generator": "poisson"})
        calls = [v for k, v in shim.log if k == "poisson"]
        if len(calls) != 1 + (T - 1) * n:
            run.corr_fail("poisson-draws", case, 1 + (T - 1) * n, len(calls)); continue
        # every emitted count is the draw made with the observed rate; every observed rate = model rate of the previous row
        k = 1
        rows = sorted(set([1, T - 1] + [int(s) for s in rng.integers(1, T, size=2)])) if T > 1 else []
        for t in range(1, T):
            rates = [float(calls[k + i][0]) for i in range(n)]
            emitted = [float(calls[k + i][1]) for i in range(n)]
            if emitted != [float(v) for v in X[t]]:
                run.prop_fail("emitted count is not the draw for that node/time", case, {"clause": "counts", "generator": "poisson"}, {"t": t})
            if t in rows:
                meta.append(("rate", {"case": case, "t": t}, rates))
                reqs.append({"op": "poisson_rate", "floor": num(FLOOR), "lam": num(lam), "c": num(c), "A": mat(A), "x": vec(X[t - 1])})
            # direct statement of the property (independent of the model)
            for i in range(n):
                want = max(0.1, lam + c * float(np.sum(A[:, i] * X[t - 1, :])))
                if abs(rates[i] - want) > 1e-9 * max(1, want):
                    run.prop_fail("Poisson rate differs from max(0.1, lambda_base + coupling*sum_j A[j,i] X_j(t-1))", case,
                                  {"clause": "rate", "generator": "poisson"}, {"t": t, "node": i, "rate": rates[i], "want": want})
                pooled.append((X[t, i], rates[i]))
            k += n
    resp = driver.run_sharded(reqs)
    for (kind, case, expect), r in zip(meta, resp):
        if "ok" not in r:
            run.corr_fail(kind, case, r, None, "driver error"); continue
        run.traces += 1
        if kind in ("linear", "buildA"):
            M = [[unval(v) for v in row] for row in r["ok"]]
            E = np.asarray(expect)
            scale = float(np.max(np.abs(E))) if E.size else 1.0
            tol = 1e-12 if kind == "linear" else 1e-9
            ok = len(M) == E.shape[0] and all(len(M[i]) == E.shape[1] and all(abs(float(M[i][j]) - float(E[i][j])) <= tol * max(scale, 1e-300) * max(1, len(M)) for j in range(E.shape[1])) for i in range(E.shape[0]))
            if not ok:
                if kind == "linear":
                    run.prop_fail("X_t - A X_{t-1} is not epsilon times the seed's white noise (returned A does not explain the series)", case, {"clause": "residual", "generator": "linear"})
                else:
                    run.corr_fail("buildA", case, "rho*(Adj^T o R)/radius", "returned A differs")
        else:
            rates = [unval(v) for v in r["ok"]]
            if not all(close(float(e), m, 0, 1e-12) for e, m in zip(expect, rates)):
                run.corr_fail("rate", case, [float(m) for m in rates], expect)
    # pooled z-test: conditional mean of the counts equals the rate (a property of NumPy's sampler; measurement)
    if pooled:
        xs = np.array([a for a, _ in pooled]); rs = np.array([b for _, b in pooled])
        z = float((xs - rs).sum() / np.sqrt(rs.sum()))
        run.extra["pooled_poisson_z"] = {"z": z, "n": len(pooled), "alarm_at": 6.5}
        if abs(z) > 6.5:  # two-sided normal tail < 1e-10
            run.prop_fail("pooled counts deviate from their conditional means", {"z": z, "n": len(pooled)}, {"clause": "mean", "generator": "poisson"})
    run.assumptions += [
        "spectral radius is LAPACK's (np.linalg.eigvals): trusted; radius_scaling is proved for any eigen-pair",
        "conditional mean: the observed rate argument of every rng.poisson call is checked exactly; that NumPy's sampler has that mean is trusted (+ pooled z-test, measurement)",
        "nx.erdos_renyi_graph(directed=True) with the same seed reproduces the default graph (trusted)",
    ]
