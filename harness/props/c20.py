"""C20 -- plotting is total on discoverable networks and leaves the graph unchanged."""
import copy
import itertools
import math
import random as pyrandom
import warnings

import networkx as nx
import numpy as np

from common import num, patched, quiet, unval

DEFAULT_MAPS = ["Blues", "Greens", "Oranges", "Purples", "Reds"]
SAFE_MAPS = ["viridis", "plasma", "cividis", "inferno", "magma"]


def rand_multigraph(rng, n=None, mode=None):
    n = n or int(rng.integers(2, 13))
    labels = [f"X{i}" for i in range(n)] if rng.random() < 0.6 else list(range(n))
    G = nx.MultiDiGraph(); G.add_nodes_from(labels)
    mode = mode if mode is not None else int(rng.integers(0, 7))
    lags_pool = {0: [1], 1: [1, 2, 3], 2: [2, 5, 9], 3: [1, 2, 3, 4, 5, 6, 7], 4: [3], 5: [1, 4], 6: [1, 2]}[mode]
    m = int(rng.integers(0, 3 * n + 1))
    seen = set()
    for _ in range(m):
        u, v = labels[int(rng.integers(0, n))], labels[int(rng.integers(0, n))]
        if mode == 4:
            v = u                                        # only self-loops
        lag = int(lags_pool[int(rng.integers(0, len(lags_pool)))])
        if (u, v, lag) in seen:
            continue
        seen.add((u, v, lag))
        cmi = 0.0 if (mode == 5 and lag == 4) or rng.random() < 0.15 else float(rng.integers(0, 64)) / 16
        p = float(rng.choice([0.0, 1.0, rng.integers(0, 11) / 10]))
        G.add_edge(u, v, lag=lag, cmi=cmi, p_value=p)
    return G


class RandShim:
    """recording replacement for the name `random` inside the plotting module"""

    def __init__(self):
        self.samples, self.randoms, self.seeds = [], [], []

    def seed(self, s):
        self.seeds.append(s); pyrandom.seed(s)

    def random(self):
        r = pyrandom.random(); self.randoms.append(r); return r

    def sample(self, pop, k):
        r = pyrandom.sample(pop, k); self.samples.append(list(r)); return r

    def __getattr__(self, name):
        return getattr(pyrandom, name)


def _rad_of(cs, rad):
    try:
        return cs.startswith("arc3,rad=") and abs(float(cs.split("=")[1]) - rad) < 1e-12
    except Exception:  # noqa
        return False


def swap(l, i, j):
    l = list(l); l[i], l[j] = l[j], l[i]; return l


def rev(l, i, j):
    l = list(l); l[i:j + 1] = reversed(l[i:j + 1]); return l


def infer_steps(seed_order, curs, samples, final):
    """reconstruct (move, accepted) for every iteration from the proposals the optimiser scored, without re-implementing its
    acceptance rule: cur_t must be a swap or block reversal (with the recorded sample) of best_{t-1} in {best_{t-2}, cur_{t-1}}"""
    states = [(list(seed_order), [])]       # candidate (best, steps so far)
    for t, (cur, (i, j)) in enumerate(zip(curs, samples)):
        nxt = []
        for best, steps in states:
            for kind, cand in (("swap", swap(best, i, j)), ("rev", rev(best, *sorted((i, j))))):
                if cand == list(cur):
                    a, b = (i, j) if kind == "swap" else tuple(sorted((i, j)))
                    nxt.append((best, steps, (kind, a, b)))
                    break
        if not nxt:
            return None
        states = []
        for best, steps, mv in nxt:
            states.append((list(cur), steps + [mv + (True,)]))      # accepted
            states.append((best, steps + [mv + (False,)]))          # rejected
        # prune duplicates
        uniq = {}
        for b, s in states:
            uniq.setdefault(tuple(map(repr, b)), (b, s))
        states = list(uniq.values())[:64]
    for best, steps in states:
        if best == list(final):
            return steps
    return None


def check(run, driver):
    import matplotlib
    matplotlib.use("Agg")
    import matplotlib.pyplot as plt
    from matplotlib.axes import Axes
    from matplotlib.figure import Figure

    from causationentropy.core import plotting as P

    run.rule = (
        "random multigraphs with 2..12 nodes (string/int labels, lag gaps, >5 lag groups, all-zero cmi groups, only self-loops, parallel edges, "
        "p in {0,1}); all 2^5 boolean option combinations in thorough / 8 random in quick, both palettes; optimiser with iteration budgets 0..400 "
        "and recorded random stream replayed through the Lean model; adversarial community outputs (overlapping, incomplete, raising). "
        "Non-trivial = >=3 nodes and >=2 lag groups (drawings) / >=1 accepted move (optimiser); distinct by content hash"
    )
    thorough = run.tier == "thorough"
    rng = run.rng
    warnings.simplefilter("ignore")
    reqs, meta = [], []
    # ---------------- optimiser: recorded move stream replayed through the model
    for it in range(80 if thorough else 25):
        G = rand_multigraph(rng)
        nodes = list(G.nodes()); idx = {n: i for i, n in enumerate(nodes)}
        iters = int(rng.choice([0, 1, 5, 50, 200, 400]))
        seed = 0 if it % 5 == 0 else int(rng.integers(0, 1000))
        block = bool(rng.integers(0, 2))
        shim = RandShim()
        curs = []
        real_obj = P._objective

        def spy(Gr, order, *a, **k):
            curs.append(list(order)); return real_obj(Gr, order, *a, **k)

        G0 = copy.deepcopy(G)
        with patched(P, "random", shim), patched(P, "_objective", spy):
            res = P.optimize_circular_order(G, max_iters=iters, block_moves=block, rng=seed)
        pyrandom.seed(int(rng.integers(0, 10**6))); pyrandom.random()      # unrelated activity on the global generator in between
        again = P.optimize_circular_order(G, max_iters=iters, block_moves=block, rng=seed)
        case = {"nodes": [repr(n) for n in nodes], "edges": [(idx[u], idx[v], d["lag"]) for u, v, d in G.edges(data=True)], "max_iters": iters, "block_moves": block, "seed": seed}
        seed_order = curs[0] if curs else list(res)
        steps = infer_steps(seed_order, curs[1:], shim.samples, res) if curs else []
        acc = sum(1 for s in (steps or []) if s[3])
        run.case("optimiser", [case["nodes"], case["edges"], iters, block, seed], acc >= 1, sample={**case, "result": [repr(x) for x in res]})
        if sorted(map(repr, res)) != sorted(map(repr, nodes)) or len(res) != len(nodes):
            run.prop_fail("automatic layout does not place every node exactly once", case, {"clause": "layout_perm"}, [repr(x) for x in res])
        if list(again) != list(res):
            run.prop_fail("layout is not reproducible for a given layout seed", case, {"clause": "reproducible"}, {"first": list(map(repr, res)), "second": list(map(repr, again))})
        if not nx.utils.graphs_equal(G, G0):
            run.prop_fail("optimiser modified the graph", case, {"clause": "graph_unchanged"})
        if shim.seeds[:1] != [seed]:
            run.corr_fail("optimiser-seed", case, seed, shim.seeds[:1], "the layout seed does not seed the move stream")
        if steps is None:
            run.corr_fail("optimiser-moves", case, "every proposal is a swap / block reversal of the current best order", "could not explain the scored proposals")
            continue
        meta.append(("opt", case, [idx[n] for n in res]))
        reqs.append({"op": "optimise", "seed": [idx[n] for n in seed_order], "steps": [[k, a, b, c] for (k, a, b, c) in steps]})
        # seed order vs model: the community output as the routine iterates it
        try:
            comms = [list(c) for c in nx.algorithms.community.greedy_modularity_communities(G.to_undirected())]
        except Exception:  # noqa
            comms = [list(set(G.nodes()))]
        so = P._communities_seed_order(G)
        meta.append(("seed", case, [idx[n] for n in so]))
        reqs.append({"op": "seed_order", "comms": [[idx[n] for n in c] for c in comms], "deg": [int(G.degree(n)) for n in nodes], "nodes": list(range(len(nodes)))})
    # history: the same graph object grown in place between two layouts must be laid out like a fresh graph
    for it in range(20 if thorough else 6):
        G = rand_multigraph(rng)
        seed = int(rng.integers(0, 100)); iters = int(rng.choice([0, 20, 100]))
        P.optimize_circular_order(G, max_iters=iters, rng=seed)
        new = "new-node" if isinstance(list(G.nodes())[0], str) else 10**6
        G.add_node(new); G.add_edge(new, list(G.nodes())[0], lag=2, cmi=0.5, p_value=0.5)
        fresh = nx.MultiDiGraph(); fresh.add_nodes_from(G.nodes(data=True)); fresh.add_edges_from((a, b, dict(dd)) for a, b, dd in G.edges(data=True))
        o1 = P.optimize_circular_order(G, max_iters=iters, rng=seed); o2 = P.optimize_circular_order(fresh, max_iters=iters, rng=seed)
        run.case("history", [it, seed, iters, G.number_of_nodes()], True)
        if sorted(map(repr, o1)) != sorted(map(repr, G.nodes())) or len(o1) != G.number_of_nodes():
            run.prop_fail("after the graph grew in place, the layout no longer places every node exactly once (stale state)", {"nodes": list(map(repr, G.nodes())), "order": list(map(repr, o1))}, {"clause": "layout_perm", "history": True})
        elif list(o1) != list(o2):
            run.corr_fail("history", {"nodes": list(map(repr, G.nodes()))}, list(map(repr, o2)), list(map(repr, o1)), "layout of a graph object seen before differs from the layout of a fresh equal graph")
    # history: two graphs with the SAME edges but different isolated nodes, laid out and drawn one after the other with the same seed
    for it in range(8 if thorough else 3):
        base = rand_multigraph(rng, n=int(rng.integers(3, 7)))
        seed = int(rng.integers(0, 30))
        for tag in ("idle-A", "idle-B"):
            Gt = nx.MultiDiGraph(); Gt.add_nodes_from(base.nodes()); Gt.add_edges_from((a, b, dict(dd)) for a, b, dd in base.edges(data=True)); Gt.add_node(tag)
            run.case("history-idle", [it, tag, seed], True)
            o = P.optimize_circular_order(Gt, max_iters=30, rng=seed)
            if sorted(map(repr, o)) != sorted(map(repr, Gt.nodes())):
                run.prop_fail("layout does not place every node of THIS graph exactly once after a graph with the same edges but another isolated node was laid out (stale state)",
                              {"nodes": list(map(repr, Gt.nodes())), "order": list(map(repr, o))}, {"clause": "layout_perm", "history": True})
            try:
                with quiet():
                    fig, ax = P.plot_causal_network(Gt, seed=seed, figsize=(3, 3), dpi=30, show_plot=False)
                plt.close("all")
            except Exception as e:  # noqa
                plt.close("all")
                run.prop_fail("drawing raises after a graph with the same edges but another isolated node was drawn", {"nodes": list(map(repr, Gt.nodes())), "seed": seed}, {"clause": "total", "history": True}, repr(e))
    # history: the SAME graph object drawn, edited in place so that node and edge counts stay what they were (a variable renamed /
    # replaced, one link rewired), and drawn again with the same seed: total, and laid out like a fresh graph with the edited content
    for it in range(12 if thorough else 4):
        G = rand_multigraph(rng, n=int(rng.integers(4, 8)))
        seed = int(rng.integers(0, 30))
        try:
            with quiet():
                P.plot_causal_network(G, seed=seed, figsize=(3, 3), dpi=30, show_plot=False)
            plt.close("all")
        except Exception:  # noqa  (a failure of the first drawing is the business of the drawing stream below)
            plt.close("all"); continue
        nodes0 = list(G.nodes())
        if it % 2 == 0:      # rename: the first node leaves, a new label takes over its links
            old_n = nodes0[0]; new_n = "renamed" if isinstance(old_n, str) else 10**6 + it
            inc = [(a, b, dict(dd)) for a, b, dd in G.edges(data=True) if old_n in (a, b)]
            G.remove_node(old_n); G.add_node(new_n)
            for a, b, dd in inc:
                G.add_edge(new_n if a == old_n else a, new_n if b == old_n else b, **dd)
            edit = "node renamed in place"
        else:                # rewire: one link gets another target
            es = [(a, b, k) for a, b, k in G.edges(keys=True) if a != b]
            if not es:
                continue
            a, b, k = es[int(rng.integers(0, len(es)))]
            dd = dict(G.edges[a, b, k]); G.remove_edge(a, b, k)
            others = [x for x in nodes0 if x not in (a, b)]
            G.add_edge(a, others[int(rng.integers(0, len(others)))] if others else b, **dd)
            edit = "one link rewired in place"
        fresh = nx.MultiDiGraph(); fresh.add_nodes_from(G.nodes(data=True)); fresh.add_edges_from((a_, b_, dict(dd_)) for a_, b_, dd_ in G.edges(data=True))
        case = {"nodes": list(map(repr, G.nodes())), "edges": [(repr(a_), repr(b_), dd_) for a_, b_, dd_ in G.edges(data=True)], "seed": seed, "edit": edit}
        run.case("history-edit", [it, seed, edit, case["nodes"]], True)
        try:
            with quiet():
                fig, ax = P.plot_causal_network(G, seed=seed, figsize=(3, 3), dpi=30, show_plot=False)
            offs = ax.collections[0].get_offsets(); got = {n: np.asarray(offs[i]) for i, n in enumerate(G.nodes())}
            plt.close("all")
        except Exception as e:  # noqa
            plt.close("all")
            run.prop_fail("drawing raises after the same graph object was edited in place (counts unchanged) since it was last drawn", case, {"clause": "total", "history": "edit"}, repr(e)); continue
        pyrandom.seed(int(rng.integers(0, 10**6)))
        want = P._circular_positions(P.optimize_circular_order(fresh, rng=seed), radius=1.0)
        if any(np.linalg.norm(got[n] - want[n]) > 1e-9 for n in G.nodes()):
            run.prop_fail("layout of a graph object that was edited in place since it was last drawn is not the seeded layout of its current content (stale state)", case, {"clause": "reproducible", "history": "edit"})
    # adversarial community outputs
    for it in range(40 if thorough else 12):
        G = rand_multigraph(rng)
        nodes = list(G.nodes()); idx = {n: i for i, n in enumerate(nodes)}
        kind = it % 4
        if kind == 0:
            fake = [set(rng.choice(len(nodes), size=int(rng.integers(1, len(nodes) + 1)), replace=False).tolist()) for _ in range(3)]   # overlapping
        elif kind == 1:
            fake = [set([0])]                                   # incomplete
        elif kind == 2:
            fake = []
        else:
            fake = None                                         # raises
        comm_lists = None if fake is None else [[nodes[i] for i in c] for c in fake]

        def fake_comm(H, *a, **k):
            if comm_lists is None:
                raise RuntimeError("community detection failed")
            return [frozenset(c) for c in comm_lists]

        with patched(nx.algorithms.community, "greedy_modularity_communities", fake_comm), quiet():
            try:
                so = P._communities_seed_order(G)
            except Exception as e:  # noqa
                run.prop_fail("seed order raises on an unusual community output", {"nodes": list(map(repr, nodes)), "communities": repr(fake)}, {"clause": "layout_perm"}, repr(e)); continue
        case = {"nodes": [repr(n) for n in nodes], "communities": repr(fake)}
        run.case("seed-order-adversarial", [case["nodes"], case["communities"], G.number_of_edges()], True, sample=case)
        if sorted(map(repr, so)) != sorted(map(repr, nodes)) or len(so) != len(nodes):
            run.prop_fail("seed order does not contain every node exactly once", case, {"clause": "layout_perm"}, list(map(repr, so)))
    # circular positions
    for N in list(range(1, 14)) + [50]:
        order = [f"n{i}" for i in range(N)]
        pos = P._circular_positions(order, radius=1.0)
        run.case("positions", N, N >= 3)
        pts = [pos[o] for o in order]
        ok = all(abs(p[0] - math.cos(2 * math.pi * i / N)) < 1e-12 and abs(p[1] - math.sin(2 * math.pi * i / N)) < 1e-12 for i, p in enumerate(pts))
        dist = all(np.linalg.norm(pts[i] - pts[j]) > 1e-9 for i in range(N) for j in range(i + 1, N))
        if not ok or not dist or len(pos) != N:
            run.prop_fail("nodes are not equally spaced, one position each, on the unit circle", {"N": N}, {"clause": "positions"}, [list(map(float, p)) for p in pts[:4]])
    # ---------------- drawings
    bool_opts = ["colorblind_safe", "show_colorbar", "use_pvalue_alpha", "show_edge_labels", "show_statistics"]
    combos = list(itertools.product([False, True], repeat=5))
    ndraw = 64 if thorough else 14
    for it in range(ndraw):
        G = rand_multigraph(rng, mode=it % 7)
        nodes = list(G.nodes()); idx = {n: i for i, n in enumerate(nodes)}
        opts = dict(zip(bool_opts, combos[it % 32] if thorough else combos[int(rng.integers(0, 32))]))
        seed = 0 if it % 4 == 0 else int(rng.integers(0, 50))
        G0 = copy.deepcopy(G)
        before = (list(G.nodes(data=True)), [(u, v, k, dict(d)) for u, v, k, d in G.edges(keys=True, data=True)])
        drawn = []
        real_edges = nx.draw_networkx_edges

        def edge_spy(Gr, pos, **kw):
            drawn.append({"edgelist": list(kw.get("edgelist", [])), "width": np.array(kw.get("width")).tolist(), "colors": np.array(kw.get("edge_color")).tolist(), "cs": kw.get("connectionstyle")})
            return real_edges(Gr, pos, **kw)

        case = {"nodes": [repr(n) for n in nodes], "edges": [(idx[u], idx[v], d) for u, v, d in G.edges(data=True)], "options": opts, "seed": seed}
        lags = sorted({d["lag"] for u, v, d in G.edges(data=True) if u != v})
        run.case("drawing", [case["nodes"], case["edges"], opts, seed], len(nodes) >= 3 and len(lags) >= 2, sample={"nodes": len(nodes), "edges": G.number_of_edges(), "lags": lags, "options": opts})
        run.branch(f"mode{it % 7}")
        try:
            with patched(nx, "draw_networkx_edges", edge_spy), quiet():
                out = P.plot_causal_network(G, seed=seed, figsize=(4, 4), dpi=40, show_plot=False, **opts)
        except Exception as e:  # noqa
            plt.close("all")
            run.prop_fail("drawing a discoverable network raises", case, {"clause": "total"}, repr(e)); continue
        fig, ax = out if isinstance(out, tuple) and len(out) == 2 else (None, None)
        if not isinstance(fig, Figure) or not isinstance(ax, Axes):
            run.prop_fail("drawing does not return (Figure, Axes)", case, {"clause": "returns"}, repr(out))
        after = (list(G.nodes(data=True)), [(u, v, k, dict(d)) for u, v, k, d in G.edges(keys=True, data=True)])
        if before != after or not nx.utils.graphs_equal(G, G0):
            run.prop_fail("drawing changed the graph's nodes, edges or attributes", case, {"clause": "graph_unchanged"})
        # drawn node positions = circular positions of the seeded layout
        pyrandom.seed(int(rng.integers(0, 10**6)))
        order = P.optimize_circular_order(G, rng=seed)
        want = P._circular_positions(order, radius=1.0)
        try:
            offs = ax.collections[0].get_offsets()
            got = {n: offs[i] for i, n in enumerate(G.nodes())}
            if any(np.linalg.norm(np.asarray(got[n]) - want[n]) > 1e-9 for n in nodes):
                run.prop_fail("drawn node positions are not the reproducible seeded circular layout", case, {"clause": "reproducible"})
        except Exception:  # noqa
            run.corr_fail("drawn-positions", case, "node collection with offsets", "could not read drawn positions")
        plt.close("all")
        # styling arithmetic vs the model
        maps = SAFE_MAPS if opts["colorblind_safe"] else DEFAULT_MAPS
        non_loop = [(d["lag"], max(0.0, float(d.get("cmi", 0.0)))) for u, v, k, d in G.edges(keys=True, data=True) if u != v]
        if non_loop:
            meta.append(("style", case, (drawn, maps)))
            reqs.append({"op": "style", "edges": [[int(l), num(c)] for l, c in non_loop], "w0": num(1.0), "w1": num(8.0), "ncmaps": len(maps)})
    for (kind, case, expect), r in zip(meta, driver.run(reqs)):
        if "ok" not in r:
            run.corr_fail(kind, case, r, None, "driver error"); continue
        run.traces += 1
        if kind in ("opt", "seed"):
            if r["ok"] != expect:
                run.corr_fail("optimiser-replay" if kind == "opt" else "seed-order", case, r["ok"], expect)
        else:
            drawn, maps = expect
            groups = r["ok"]
            if len(groups) != len(drawn):
                run.corr_fail("style", case, f"{len(groups)} lag groups", f"{len(drawn)} edge-drawing calls"); continue
            for g, dcall in zip(groups, drawn):
                w = [float(unval(x)) for x in g["widths"]]
                rad = float(unval(g["rad"]))
                ok = len(w) == len(dcall["width"]) and all(abs(a - b) < 1e-9 for a, b in zip(w, dcall["width"])) and _rad_of(dcall["cs"], rad)
                cm = plt.get_cmap(maps[g["cmap"]])
                norm = [float(unval(x)) for x in g["norm"]]
                okc = all(np.allclose(cm(nv)[:3], col[:3], atol=1e-9) for nv, col in zip(norm, dcall["colors"]))
                if not all(1.0 - 1e-12 <= x <= 8.0 + 1e-12 for x in dcall["width"]):
                    run.prop_fail("edge width outside the requested range", case, {"clause": "style"}, dcall["width"])
                if not ok or not okc:
                    run.corr_fail("style", case, {"widths": w, "rad": rad, "cmap": maps[g["cmap"]]}, {"widths": dcall["width"], "cs": dcall["cs"]}); break
    run.extra["explanation"] = (
        "Partial: the layout/arithmetics are proved in Lean (seedOrder_perm, optimise_perm for every move and accept stream, equispaced "
        "positions, normalisation without division by zero, colour-map index, arc radius) and tied to the code by replaying the optimiser's own "
        "recorded move stream; totality of the matplotlib/NetworkX drawing stack and non-mutation of the Python graph object are runtime facts "
        "that a model cannot exhibit -- they are sampled here (returns (Figure, Axes), no exception, deep-equal graph)."
    )
    run.assumptions += ["Python's random module seeded with the layout seed is a deterministic stream (trusted)", "matplotlib Agg backend; drawing calls are sampled, not proved total"]
