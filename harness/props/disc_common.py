"""Instrumentation shared by the discovery properties (C01, C02, C05, C06, C07).

Observation is by replacing module attributes of `causationentropy.core.discovery` for the
duration of a call (the same seam the unit tests use); /repo is never edited.
"""
from __future__ import annotations

import contextlib
from fractions import Fraction

import numpy as np

from common import num, quiet, unval

HASH_P = 2147483647


def hash_est_value(x, y, zcols, levels, salt, nan_own):
    """Python twin of `CE.Disc.hashEst` (lean/CEModel/DiscoveryIO.lean). Arrays hold integers."""
    xs = [int(v) for v in x]
    if nan_own and any([int(v) for v in c] == xs for c in zcols):
        return float("nan")
    acc = 0
    for r in range(len(xs)):
        xv = xs[r] % HASH_P
        yv = int(y[r]) % HASH_P
        zs = 1
        for c in zcols:
            zv = int(c[r]) % HASH_P
            zs = (zs + (zv + 11) * (zv + 13)) % HASH_P
        acc = (acc + (((xv + 3 + salt) * (yv + 5)) % HASH_P) * zs) % HASH_P
    return (acc % levels) / levels


class ScriptedEstimator:
    """Replacement for `conditional_mutual_information` inside the discovery module."""

    def __init__(self, levels=1024, salt=0, nan_own=False):
        self.levels, self.salt, self.nan_own = levels, salt, nan_own
        self.calls = []  # (X, Y, Z, kwargs)
        self.record = True

    def __call__(self, X, Y, Z=None, **kw):
        X = np.asarray(X)
        Y = np.asarray(Y)
        zc = [] if Z is None else [np.asarray(Z)[:, c] for c in range(np.asarray(Z).shape[1])]
        if self.record:
            self.calls.append((X.copy(), Y.copy(), None if Z is None else np.asarray(Z).copy(), dict(kw)))
        if X.shape[1] != 1 or Y.shape[1] != 1:
            raise AssertionError("scripted estimator expects single-column X and Y")
        return hash_est_value(X[:, 0], Y[:, 0], zc, self.levels, self.salt, self.nan_own)


class RecordingRng:
    """Proxy around a real numpy Generator that records every `permutation` result."""

    def __init__(self, gen, log, args=None):
        self._gen, self._log, self._args = gen, log, args

    def permutation(self, x, *a, **k):
        res = self._gen.permutation(x, *a, **k)
        self._log.append(("permutation", [int(v) for v in np.asarray(res).ravel()]))
        if self._args is not None:
            self._args.append(x if isinstance(x, (int, np.integer)) else [int(v) for v in np.asarray(x).ravel()])
        return res

    def shuffle(self, x, *a, **k):
        """in-place shuffle of an integer index vector = drawing a permutation (`permutation(n)` is `shuffle(arange(n))`)"""
        before = np.array(x, copy=True)
        self._gen.shuffle(x, *a, **k)
        arr = np.asarray(x)
        if arr.ndim == 1 and np.issubdtype(arr.dtype, np.integer):
            self._log.append(("permutation", [int(v) for v in arr]))
            if self._args is not None:
                self._args.append(int(len(before)) if np.array_equal(before, np.arange(len(before))) else [int(v) for v in before])
        else:
            self._log.append(("shuffle-data", None))

    def __getattr__(self, name):
        attr = getattr(self._gen, name)
        if callable(attr):
            def wrapped(*a, **k):
                self._log.append((name, None))
                return attr(*a, **k)
            return wrapped
        return attr


class _RandomShim:
    def __init__(self, real, log, seeds, args=None):
        self._real, self._log, self._seeds, self._args = real, log, seeds, args

    def default_rng(self, seed=None):
        if isinstance(seed, RecordingRng):
            return seed
        self._seeds.append(seed if not isinstance(seed, np.random.Generator) else "generator-object")
        return RecordingRng(self._real.default_rng(seed), self._log, self._args)

    def __getattr__(self, name):
        attr = getattr(self._real, name)
        if callable(attr):
            self._log.append(("global:" + name, None))
        return attr


class NpShim:
    """Forwarding replacement for the name `np` inside the discovery module."""

    def __init__(self):
        self.log, self.seeds, self.args = [], [], []
        self.random = _RandomShim(np.random, self.log, self.seeds, self.args)

    def __getattr__(self, name):
        return getattr(np, name)


@contextlib.contextmanager
def instrumented(est=None, shuffle_wrapper=None):
    """Patch the discovery module; yields an object with .np (shim), .tests (shuffle_test calls), .lasso."""
    import causationentropy.core.discovery as D

    class Obs:
        pass

    obs = Obs()
    obs.np = NpShim()
    obs.tests = []
    obs.lasso = []
    obs.fits = []       # (class name, design shape, fitted coefficient vector) of every sklearn LASSO fit
    saved = {k: getattr(D, k) for k in ("np", "conditional_mutual_information", "shuffle_test", "lasso_optimal_causation_entropy", "information_lasso_optimal_causation_entropy", "Lasso", "LassoLarsIC")}

    def fit_spy(real_cls, name):
        def make(*a, **k):
            est_ = real_cls(*a, **k)
            real_fit = est_.fit

            def fit(X, y, *aa, **kk):
                r = real_fit(X, y, *aa, **kk)
                obs.fits.append((name, tuple(np.asarray(X).shape), np.array(est_.coef_, copy=True)))
                return r
            est_.fit = fit
            return est_
        return make
    real_shuffle = D.shuffle_test
    depth = {"lasso": 0}

    def shuffle_spy(X, Y, Z, observed_cmi, *a, **k):
        start = len(obs.np.log)
        if shuffle_wrapper is not None:
            res = shuffle_wrapper(real_shuffle, X, Y, Z, observed_cmi, *a, **k)
        else:
            res = real_shuffle(X, Y, Z, observed_cmi, *a, **k)
        obs.tests.append({"X": np.asarray(X).copy(), "Y": np.asarray(Y).copy(), "Z": None if Z is None else np.asarray(Z).copy(),
                          "obs": observed_cmi, "args": a, "kwargs": dict(k), "result": dict(res), "draw_start": start, "draw_end": len(obs.np.log)})
        return res

    def lasso_wrap(real):
        def w(*a, **k):
            depth["lasso"] += 1
            try:
                r = real(*a, **k)
            finally:
                depth["lasso"] -= 1
            if depth["lasso"] == 0:
                obs.lasso.append([int(v) for v in r])
            return r
        return w

    D.np = obs.np
    # the same objects under other names (`from numpy.random import default_rng`, `import numpy.random as npr`, `import numpy`)
    from common import alias_patches
    for k_, v_ in alias_patches(D, [(np.random.default_rng, obs.np.random.default_rng), (np.random, obs.np.random), (np, obs.np)]).items():
        if k_ not in saved:
            saved[k_] = getattr(D, k_)
            setattr(D, k_, v_)
    from common import patched_everywhere
    import importlib
    real_cmi = importlib.import_module("causationentropy.core.information.conditional_mutual_information").conditional_mutual_information
    everywhere = patched_everywhere([(real_cmi, est), (real_shuffle, shuffle_spy)])      # also under module aliases / in the defining modules
    everywhere.__enter__()
    if est is not None:
        D.conditional_mutual_information = est
    D.shuffle_test = shuffle_spy
    D.Lasso = fit_spy(saved["Lasso"], "Lasso")
    D.LassoLarsIC = fit_spy(saved["LassoLarsIC"], "LassoLarsIC")
    D.lasso_optimal_causation_entropy = lasso_wrap(saved["lasso_optimal_causation_entropy"])
    D.information_lasso_optimal_causation_entropy = lasso_wrap(saved["information_lasso_optimal_causation_entropy"])
    try:
        yield obs
    finally:
        everywhere.__exit__(None, None, None)
        for k, v in saved.items():
            setattr(D, k, v)


def coded_series(T, n):
    """s[t][j] = t*n + j : every entry identifies (time, variable)."""
    return (np.arange(T)[:, None] * n + np.arange(n)[None, :]).astype(float)


def decode_col(col, n):
    """time index and variable of every entry of a coded column -> (var, [times])"""
    vals = [int(v) for v in col]
    vs = {v % n for v in vals}
    return (vs.pop() if len(vs) == 1 else None), [v // n for v in vals]


def graph_edges(G, names=None):
    """edges of the returned MultiDiGraph as sorted tuples (src, dst, lag, cmi, p)."""
    out = []
    for u, v, d in G.edges(data=True):
        out.append((u, v, d.get("lag"), d.get("cmi"), d.get("p_value")))
    return out


def model_request(series, n, method, information, L, af, ab, nsh, perms, lasso, levels, salt, nan_own):
    return {
        "op": "discover", "series": [[num(int(v)) for v in row] for row in series], "n": n,
        "method": method, "information": information, "L": L, "af": num(af), "ab": num(ab), "nsh": nsh,
        "perms": perms, "lasso": lasso, "levels": levels, "salt": salt, "nan_own": nan_own,
    }


def same_val(impl, model):
    """implementation float vs model value (Fraction / nan) -- exact."""
    m = unval(model)
    if isinstance(m, float):
        return isinstance(impl, float) and (np.isnan(impl) and np.isnan(m) or impl == m)
    impl = float(impl)
    if np.isnan(impl) or np.isinf(impl):
        return False
    return Fraction(impl) == m


# ----------------------------------------------------------------------------- observe + compare

_DN = None
_DN_CALLS = 0

def observe(data, est, **params):
    """Run the real discover_network under instrumentation. Returns a dict of observations
    (or {'error': ExceptionType} when it raises)."""
    from common import EntryPoints, call_form
    global _DN, _DN_CALLS
    if _DN is None:
        _DN = EntryPoints("discover_network", "causationentropy.core.discovery", "causationentropy.core", "causationentropy")   # every public path, in turn
    _DN_CALLS += 1
    with instrumented(est) as obs, quiet():
        try:
            # ... and every documented call form, in turn (all keywords / leading arguments positional)
            G = call_form(_DN, "discover_network", _DN_CALLS // 3, data=data, **params)
        except Exception as e:  # noqa
            return {"error": type(e).__name__, "obs": obs}
    if est is not None and hasattr(est, "calls") and not est.calls and "G" in locals() and G.number_of_edges() > 0:
        from common import SeamBypassed
        raise SeamBypassed("edges carry information values but the scripted estimator put in place of the dispatcher was never called")
    if not obs.np.seeds and (obs.tests or obs.lasso):
        from common import SeamBypassed
        raise SeamBypassed("discover_network ran significance tests / selections but no generator creation was observed through the discovery module's NumPy names")
    perms = [p for (k, p) in obs.np.log if k == "permutation"]
    other = [k for (k, p) in obs.np.log if k != "permutation"]
    return {"G": G, "obs": obs, "perms": perms, "other_rng": other, "seeds": list(obs.np.seeds), "lasso": list(obs.lasso), "fits": list(obs.fits),
            "tests": obs.tests, "args": list(obs.np.args)}


def p_same(impl, model):
    """p-value: float of the exact fraction"""
    return float(impl) == float(unval(model))


def compare_with_model(run, suite, case, o, m, names):
    """Compare the observations of a real run with the model's replay `m` (driver 'ok' payload).
    `names`: node names in input order. Returns True iff everything matches."""
    ok = True
    if "error" in o or "error" in m:
        if o.get("error") != m.get("error"):
            run.corr_fail(suite, case, m.get("error", "returns a graph"), o.get("error", "returns a graph"), "error behaviour")
            return False
        return True
    ie = graph_edges(o["G"])
    me = m["edges"]
    pos = {n: i for i, n in enumerate(names)}
    if len(ie) != len(me):
        run.corr_fail(suite, case, [e[:3] for e in me], [(pos.get(a), pos.get(b), l) for a, b, l, _, _ in ie], "edge lists differ")
        return False
    # NetworkX iterates edges by source node; the model lists them by target: compare as sorted lists
    ie = sorted(ie, key=lambda a: (pos.get(a[0], -1), pos.get(a[1], -1), a[2] if isinstance(a[2], int) else -1))
    me = sorted(me, key=lambda b: (b[0], b[1], b[2]))
    for a, b in zip(ie, me):
        if not (pos.get(a[0]) == b[0] and pos.get(a[1]) == b[1] and a[2] == b[2] and same_val(a[3], b[3]) and p_same(a[4], b[4])):
            run.corr_fail(suite, case, b, (pos.get(a[0]), pos.get(a[1]), a[2], a[3], a[4]), "edge differs")
            ok = False
            break
    tests, evs = o["tests"], m["events"]
    if len(tests) != len(evs):
        run.corr_fail(suite, case, f"{len(evs)} significance tests", f"{len(tests)} significance tests", "test counts differ")
        return False
    for i, (t, e) in enumerate(zip(tests, evs)):
        alpha = t["kwargs"].get("alpha", t["args"][0] if t["args"] else None)
        if not (same_val(t["obs"], e[4]) and bool(t["result"]["Pass"]) == e[5] and p_same(t["result"]["P_value"], e[6]) and Fraction(float(alpha)) == unval(e[1])):
            run.corr_fail(suite, case, e, {"obs": t["obs"], "Pass": bool(t["result"]["Pass"]), "P_value": float(t["result"]["P_value"]), "alpha": alpha}, f"test #{i} differs")
            ok = False
            break
    # hypothesis of the end-to-end Lean theorems (CEProofs/Master.lean): every backward visiting order read from the stream is a
    # permutation of the set it was drawn for (rng.permutation(S_init)); shuffle draws are permutations of range(N)
    for arg, res in zip(o.get("args", []), o["perms"]):
        want = list(range(arg)) if isinstance(arg, int) else sorted(arg)
        if sorted(res) != want:
            run.corr_fail(suite, case, "a permutation of " + repr(want[:8]), res[:8], "recorded generator draw is not a permutation of its argument")
            ok = False
            break
    if m["draws"] != len(o["perms"]):
        run.corr_fail(suite, case, m["draws"], len(o["perms"]), "number of generator draws differs")
        ok = False
    return ok
