"""Instrumentation shared by the discovery properties (C01, C02, C05, C06, C07).

Observation is by replacing module attributes of `causationentropy.core.discovery` for the
duration of a call (the same seam the unit tests use); /repo is never edited.
"""
from __future__ import annotations

import contextlib
from fractions import Fraction

import numpy as np

from common import num, quiet, unval

HASH_P = 2147483647


def hash_est_value(x, y, zcols, levels, salt, nan_own):
    """Python twin of `CE.Disc.hashEst` (lean/CEModel/DiscoveryIO.lean). Arrays hold integers."""
    xs = [int(v) for v in x]
    if nan_own and any([int(v) for v in c] == xs for c in zcols):
        return float("nan")
    acc = 0
    for r in range(len(xs)):
        xv = xs[r] % HASH_P
        yv = int(y[r]) % HASH_P
        zs = 1
        for c in zcols:
            zv = int(c[r]) % HASH_P
            zs = (zs + (zv + 11) * (zv + 13)) % HASH_P
        acc = (acc + (((xv + 3 + salt) * (yv + 5)) % HASH_P) * zs) % HASH_P
    return (acc % levels) / levels


class ScriptedEstimator:
    """Replacement for `conditional_mutual_information` inside the discovery module."""

    def __init__(self, levels=1024, salt=0, nan_own=False):
        self.levels, self.salt, self.nan_own = levels, salt, nan_own
        self.calls = []  # (X, Y, Z, kwargs)
        self.record = True

    def __call__(self, X, Y, Z=None, **kw):
        X = np.asarray(X)
        Y = np.asarray(Y)
        zc = [] if Z is None else [np.asarray(Z)[:, c] for c in range(np.asarray(Z).shape[1])]
        if self.record:
            self.calls.append((X.copy(), Y.copy(), None if Z is None else np.asarray(Z).copy(), dict(kw)))
        if X.shape[1] != 1 or Y.shape[1] != 1:
            raise AssertionError("scripted estimator expects single-column X and Y")
        return hash_est_value(X[:, 0], Y[:, 0], zc, self.levels, self.salt, self.nan_own)


class RecordingRng:
    """Proxy around a real numpy Generator that records every `permutation` result."""

    def __init__(self, gen, log):
        self._gen, self._log = gen, log

    def permutation(self, x, *a, **k):
        res = self._gen.permutation(x, *a, **k)
        self._log.append(("permutation", [int(v) for v in np.asarray(res).ravel()]))
        return res

    def __getattr__(self, name):
        attr = getattr(self._gen, name)
        if callable(attr):
            def wrapped(*a, **k):
                self._log.append((name, None))
                return attr(*a, **k)
            return wrapped
        return attr


class _RandomShim:
    def __init__(self, real, log, seeds):
        self._real, self._log, self._seeds = real, log, seeds

    def default_rng(self, seed=None):
        if isinstance(seed, RecordingRng):
            return seed
        self._seeds.append(seed if not isinstance(seed, np.random.Generator) else "generator-object")
        return RecordingRng(self._real.default_rng(seed), self._log)

    def __getattr__(self, name):
        attr = getattr(self._real, name)
        if callable(attr):
            self._log.append(("global:" + name, None))
        return attr


class NpShim:
    """Forwarding replacement for the name `np` inside the discovery module."""

    def __init__(self):
        self.log, self.seeds = [], []
        self.random = _RandomShim(np.random, self.log, self.seeds)

    def __getattr__(self, name):
        return getattr(np, name)


@contextlib.contextmanager
def instrumented(est=None, shuffle_wrapper=None):
    """Patch the discovery module; yields an object with .np (shim), .tests (shuffle_test calls), .lasso."""
    import causationentropy.core.discovery as D

    class Obs:
        pass

    obs = Obs()
    obs.np = NpShim()
    obs.tests = []
    obs.lasso = []
    saved = {k: getattr(D, k) for k in ("np", "conditional_mutual_information", "shuffle_test", "lasso_optimal_causation_entropy", "information_lasso_optimal_causation_entropy")}
    real_shuffle = D.shuffle_test
    depth = {"lasso": 0}

    def shuffle_spy(X, Y, Z, observed_cmi, *a, **k):
        start = len(obs.np.log)
        if shuffle_wrapper is not None:
            res = shuffle_wrapper(real_shuffle, X, Y, Z, observed_cmi, *a, **k)
        else:
            res = real_shuffle(X, Y, Z, observed_cmi, *a, **k)
        obs.tests.append({"X": np.asarray(X).copy(), "Y": np.asarray(Y).copy(), "Z": None if Z is None else np.asarray(Z).copy(),
                          "obs": observed_cmi, "args": a, "kwargs": dict(k), "result": dict(res), "draw_start": start, "draw_end": len(obs.np.log)})
        return res

    def lasso_wrap(real):
        def w(*a, **k):
            depth["lasso"] += 1
            try:
                r = real(*a, **k)
            finally:
                depth["lasso"] -= 1
            if depth["lasso"] == 0:
                obs.lasso.append([int(v) for v in r])
            return r
        return w

    D.np = obs.np
    if est is not None:
        D.conditional_mutual_information = est
    D.shuffle_test = shuffle_spy
    D.lasso_optimal_causation_entropy = lasso_wrap(saved["lasso_optimal_causation_entropy"])
    D.information_lasso_optimal_causation_entropy = lasso_wrap(saved["information_lasso_optimal_causation_entropy"])
    try:
        yield obs
    finally:
        for k, v in saved.items():
            setattr(D, k, v)


def coded_series(T, n):
    """s[t][j] = t*n + j : every entry identifies (time, variable)."""
    return (np.arange(T)[:, None] * n + np.arange(n)[None, :]).astype(float)


def decode_col(col, n):
    """time index and variable of every entry of a coded column -> (var, [times])"""
    vals = [int(v) for v in col]
    vs = {v % n for v in vals}
    return (vs.pop() if len(vs) == 1 else None), [v // n for v in vals]


def graph_edges(G, names=None):
    """edges of the returned MultiDiGraph as sorted tuples (src, dst, lag, cmi, p)."""
    out = []
    for u, v, d in G.edges(data=True):
        out.append((u, v, d.get("lag"), d.get("cmi"), d.get("p_value")))
    return out


def model_request(series, n, method, information, L, af, ab, nsh, perms, lasso, levels, salt, nan_own):
    return {
        "op": "discover", "series": [[num(int(v)) for v in row] for row in series], "n": n,
        "method": method, "information": information, "L": L, "af": num(af), "ab": num(ab), "nsh": nsh,
        "perms": perms, "lasso": lasso, "levels": levels, "salt": salt, "nan_own": nan_own,
    }


def same_val(impl, model):
    """implementation float vs model value (Fraction / nan) -- exact."""
    m = unval(model)
    if isinstance(m, float):
        return isinstance(impl, float) and (np.isnan(impl) and np.isnan(m) or impl == m)
    impl = float(impl)
    if np.isnan(impl) or np.isinf(impl):
        return False
    return Fraction(impl) == m
