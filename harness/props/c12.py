"""C12 -- geometric-kNN entropy obeys the laws of a differential entropy estimate."""
import math
import warnings

import numpy as np
from scipy.spatial.distance import cdist
from scipy.stats import ortho_group

from props.geomref import ref_entropy

TOL = 1e-8


def check(run, driver):
    import importlib

    E = importlib.import_module("causationentropy.core.information.entropy")
    M = importlib.import_module("causationentropy.core.information.mutual_information")
    C = importlib.import_module("causationentropy.core.information.conditional_mutual_information")
    run.rule = (
        "tie-free continuous samples, N in k+2..60 (quick <= 40), d in 1..5, k in 1..8 (both regimes k<d and k>=d), scales 0.1..10: "
        "(i) the real geometric_knn_entropy vs an INDEPENDENT evaluation of the published formula (brute-force neighbours, a one-sided Jacobi SVD "
        "written in the harness instead of the LAPACK routine); cases whose ellipsoid sum lies within 1e-6 of the threshold 1 or whose k-th / "
        "(k+1)-th neighbour distances are within 1e-9 are skipped and counted; (ii) translation, random orthogonal map, scaling (+d log a) and "
        "row permutation on the real function; (iii) MI / CMI = documented signed sums of such entropies. Non-trivial = d>=2 and k>=2"
    )
    thorough = run.tier == "thorough"
    rng = run.rng
    warnings.simplefilter("ignore")
    H = lambda X, k, metric="euclidean": float(E.geometric_knn_entropy(X, cdist(X, X, metric=metric), k))
    worst = 0.0
    total = 0
    for it in range(500 if thorough else 160):
        d = int(rng.integers(1, 6)); k = int(rng.integers(1, 9)); N = int(rng.integers(k + 2, 61 if thorough else 41))
        scale = float(10 ** rng.uniform(-1, 1))
        if it % 6 == 4:        # data recorded in small units (micro-scale lengths in metres, currents in amperes): spacings 1e-9..1e-7
            scale = float(10 ** rng.uniform(-7.5, -6.5))
        elif it % 6 == 1:      # ... or in large ones
            scale = float(10 ** rng.uniform(3, 6))
        mix = rng.standard_normal((d, d)) * 0.6 + np.eye(d)
        X = rng.standard_normal((N, d)) @ mix * scale
        if it % 5 == 2 and d >= 2:       # coordinates in very different units (spreads up to 1e4 apart)
            X = X * 10.0 ** rng.uniform(-2, 2, size=d)
        X0 = X.copy()
        h = H(X, k)
        ref, margin, gap, smallest = ref_entropy(X, k, detail=2)
        case = {"N": N, "d": d, "k": k, "X": X0}
        total += 1
        run.case("entropy", [N, d, k, float(X[0, 0])], d >= 2 and k >= 2, sample={"N": N, "d": d, "k": k, "impl": h, "reference": ref})
        run.branch("k<d" if k < d else "k>=d")
        sig = {"function": "geometric_knn_entropy", "regime": "k<d" if k < d else "k>=d"}
        if not np.array_equal(X, X0):
            run.prop_fail("argument modified", case, {**sig, "clause": "purity"})
        if margin < 1e-6 or gap < 1e-9:
            run.skip("ellipsoid sum within 1e-6 of the threshold / neighbour near-tie"); continue
        if smallest < 1e-10:     # the implementation's absolute 1e-12 guards (distance, singular values) would come into play after the 0.1x rescaling below: outside "tie-free sample" in spirit, counted
            run.skip("a k-th neighbour distance or local singular value below 1e-10 (absolute guards of the implementation)"); continue
        worst = max(worst, abs(h - ref))
        if not math.isfinite(h) or abs(h - ref) > TOL:
            run.prop_fail("geometric-kNN entropy differs from an independent evaluation of log N + log c_d + d <log rho_k> + <local ellipsoid correction>",
                          case, {**sig, "clause": "formula"}, {"impl": h, "reference": ref})
            continue
        run.traces += 1
        t = rng.uniform(-3, 3, size=d) * scale
        hs = H(X + t, k)
        if abs(hs - h) > TOL:
            run.prop_fail("estimate changes under translation of the sample", case, {**sig, "clause": "translation"}, {"base": h, "shifted": hs, "shift": t})
        # "arbitrary shifts": far from the origin (coordinates such as 4 194 304.37 with unit spread); exact power-of-two offsets, and
        # the un-shifted sample is taken as (X + t) - t so that both samples are exactly representable translates of each other
        tb = 2.0 ** rng.integers(6, 25, size=d) * rng.choice([-1.0, 1.0], size=d) * 2.0 ** round(math.log2(scale))
        Xs = X + tb; Xq = Xs - tb
        hq, hb = H(Xq, k), H(Xs, k)
        if abs(hb - hq) > TOL:
            run.prop_fail("estimate changes under translation of the sample", {**case, "X": Xq}, {**sig, "clause": "translation", "shift": "large"}, {"base": hq, "shifted": hb, "shift": tb})
        Q = ortho_group.rvs(d, random_state=int(rng.integers(0, 2**31))) if d > 1 else np.array([[-1.0]])
        hr = H(X @ Q, k)
        if abs(hr - h) > TOL:
            run.prop_fail("estimate changes under rotation of the sample", case, {**sig, "clause": "rotation"}, {"base": h, "rotated": hr, "Q": Q})
        a = float(rng.uniform(0.1, 10))
        ha = H(a * X, k)
        if abs(ha - h - d * math.log(a)) > TOL:
            run.prop_fail("scaling a d-dimensional sample by a does not change the estimate by exactly d*log(a)", case, {**sig, "clause": "scaling"},
                          {"base": h, "scaled": ha, "a": a, "expected_delta": d * math.log(a)})
        pm = rng.permutation(N)
        hp = H(X[pm], k)
        if abs(hp - h) > TOL:
            run.prop_fail("estimate depends on sample order", case, {**sig, "clause": "order"}, {"base": h, "permuted": hp, "perm": pm})
    run.extra["max_abs_diff_vs_reference"] = worst
    # ---- seam tie with the Lean model (CEModel/Geometric.lean): what the implementation hands to l2dist / svd / hyperellipsoid_check
    #      must be the model's k-th neighbour, centred neighbourhood Y_i and offsets Z_i (exact rational evaluation)
    from common import mat, patched, unval
    reqs, meta = [], []
    for it in range(60 if thorough else 20):
        d = int(rng.integers(1, 5)); k = int(rng.integers(1, 6)); N = int(rng.integers(k + 2, 16))
        X = rng.standard_normal((N, d))      # (un-quantised: a quantised grid creates exact distance ties, outside the tie-free quantifier)
        rec = {"l2": [], "svd": [], "hyp": [], "S": [], "inside": []}
        real_l2, real_svd, real_hyp = E.l2dist, np.linalg.svd, E.hyperellipsoid_check

        def l2(a, b):
            rec["l2"].append((np.array(a, copy=True), np.array(b, copy=True))); return real_l2(a, b)

        def svd(a, *aa, **kk):
            rec["svd"].append(np.array(a, copy=True)); out = real_svd(a, *aa, **kk); rec["S"].append(np.array(out[1], copy=True)); return out

        def hyp(sv, z):
            rec["hyp"].append(np.array(z, copy=True)); out = real_hyp(sv, z); rec["inside"].append(bool(out)); return out

        with patched(E, "l2dist", l2), patched(np.linalg, "svd", svd), patched(E, "hyperellipsoid_check", hyp):
            E.geometric_knn_entropy(X, cdist(X, X), k)
        run.case("seams", [N, d, k, float(X[0, 0])], d >= 2 and k >= 2)
        meta.append(({"N": N, "d": d, "k": k, "X": X}, rec)); reqs.append({"op": "geom_parts", "X": mat(X), "k": k})
    # ---- spectral tie (CEModel/GeomSpectral.lean): the singular values LAPACK returned and the ellipsoid decisions taken from them
    #      against EXACT rational invariants of the same local configuration: e_m(S^2) = sum of principal m-minors of the Gram
    #      matrix (all m: determines S), and inside <=> z^T G^-1 z <= 1 (Cramer) when G is invertible (k >= d)
    import itertools
    spec = driver.run_sharded([{"op": "geom_spectral", "X": q["X"], "k": q["k"]} for q in reqs])
    n_sv = n_ell = n_skip = 0
    for (case, rec), r in zip(meta, spec):
        if "ok" not in r:
            run.corr_fail("spectral", case, r, None, "driver error"); continue
        N, k, d = case["N"], case["k"], case["d"]
        if len(rec["S"]) != N or len(rec["inside"]) != N * k:
            continue    # reported by the seam tie below
        for i, p in enumerate(r["ok"]):
            S = rec["S"][i].astype(float)
            lam = [float(v) ** 2 for v in S] + [0.0] * max(0, d - len(S))
            well = len(S) > 0 and S[0] > 0 and (len(S) < d or S[-1] > 1e-4 * S[0])
            e_exact = [float(unval(v)) for v in p["e"]]
            if well and k >= d:
                for m in range(1, d + 1):
                    em = math.fsum(math.prod(c) for c in itertools.combinations(lam, m))
                    n_sv += 1
                    if abs(em - e_exact[m - 1]) > 1e-8 * max(abs(e_exact[m - 1]), 1e-300):
                        run.prop_fail("the singular values used by the local correction are not those of the local configuration (elementary symmetric polynomial of S^2 differs from the exact sum of principal minors of Y^T Y)",
                                      {**case, "sample": i}, {"clause": "reference", "part": "singular-values"}, {"m": m, "e_m_of_S2": em, "exact": e_exact[m - 1], "S": S.tolist()})
                        break
            elif any(any(not (x >= 0) for x in [float(v)]) for v in S) or any(S[j] < S[j + 1] for j in range(len(S) - 1)):
                run.prop_fail("singular values not non-negative and descending", {**case, "sample": i}, {"clause": "reference", "part": "singular-values"}, {"S": S.tolist()})
            else:
                n_skip += 1
            for jj, qv in enumerate(p["q"]):
                if qv is None or not well:
                    n_skip += 1; continue
                qf = float(unval(qv))
                if abs(qf - 1.0) <= 1e-7 * max(1.0, qf):
                    n_skip += 1; continue
                n_ell += 1
                if rec["inside"][i * k + jj] != (qf <= 1.0):
                    run.prop_fail("ellipsoid membership decided by hyperellipsoid_check differs from the exact quadratic form z^T (Y^T Y)^-1 z <= 1",
                                  {**case, "sample": i, "neighbour": jj}, {"clause": "reference", "part": "ellipsoid"}, {"exact_q": qf, "inside": rec["inside"][i * k + jj]})
        run.traces += 1
    run.extra["spectral_tie"] = {"symmetric_polynomials_compared": n_sv, "ellipsoid_decisions_compared": n_ell, "skipped_ill_conditioned_or_singular": n_skip}
    for (case, rec), r in zip(meta, driver.run_sharded(reqs)):
        if "ok" not in r:
            run.corr_fail("seams", case, r, None, "driver error"); continue
        parts = r["ok"]; N, k, X = case["N"], case["k"], case["X"]
        ok = len(rec["l2"]) == N and len(rec["svd"]) == N and len(rec["hyp"]) == N * k
        if ok:
            for i, p in enumerate(parts):
                a, b = rec["l2"][i]
                kth = p["nbrs"][k - 1]
                # (the arguments of l2dist may be translates of the rows: only their difference matters to the estimate)
                ok = ok and np.allclose(a - b, X[i] - X[kth], rtol=0, atol=1e-12 * max(1.0, float(np.abs(X).max()))) and abs(float(((a - b) ** 2).sum()) - float(unval(p["rho2"]))) <= 1e-12 * max(1.0, float(unval(p["rho2"])))
                Y = np.array([[float(unval(v)) for v in row] for row in p["Y"]]).reshape(k + 1, -1)
                Z = np.array([[float(unval(v)) for v in row] for row in p["Z"]]).reshape(k, -1)
                ok = ok and rec["svd"][i].shape == Y.shape and np.allclose(rec["svd"][i], Y, rtol=0, atol=1e-12)
                ok = ok and all(np.allclose(rec["hyp"][i * k + jj], Z[jj], rtol=0, atol=1e-12) for jj in range(k))
                if not ok:
                    run.corr_fail("seams", {**case, "sample": i}, {"kth_neighbour": kth, "Y": Y.tolist(), "Z": Z.tolist()},
                                  {"l2dist_args": [a.tolist(), b.tolist()], "svd_arg": rec["svd"][i].tolist()},
                                  "what the implementation hands to l2dist / svd / hyperellipsoid_check differs from the model's neighbour, Y_i, Z_i")
                    break
        else:
            run.corr_fail("seams", case, f"{N} l2dist, {N} svd, {N * k} ellipsoid checks", {kk: len(v) for kk, v in rec.items()}, "call counts at the seams")
        run.traces += 1
    # ---- history: same buffers refilled in place between two calls
    from common import reuse_check
    for it in range(10 if thorough else 4):
        N = int(rng.integers(10, 24)); kk = int(rng.integers(1, 4))
        A1, A2 = rng.standard_normal((N, 3)), rng.standard_normal((N, 3))
        sp = lambda W: (W[:, :1], W[:, 1:2], W[:, 2:])
        run.case("history", [N, kk, float(A1[0, 0])], True)
        reuse_check(run, "geometric-kNN entropy", lambda x: H(x, kk), (A1,), (A2,), {"function": "geometric_knn_entropy", "clause": "purity"})
        reuse_check(run, "geometric-kNN entropy (sample and distance-matrix buffers both reused)", lambda x, dm: float(E.geometric_knn_entropy(x, dm, kk)),
                    (A1, cdist(A1, A1)), (A2, cdist(A2, A2)), {"function": "geometric_knn_entropy", "clause": "purity"})
        reuse_check(run, "geometric-kNN CMI", lambda x, y, z: float(C.geometric_knn_conditional_mutual_information(x, y, z, metric="euclidean", k=kk)), sp(A1), sp(A2), {"function": "geometric_knn_conditional_mutual_information", "clause": "purity"})
        reuse_check(run, "geometric-kNN MI", lambda x, y: float(M.geometric_knn_mutual_information(x, y, metric="euclidean", k=kk)), sp(A1)[:2], sp(A2)[:2], {"function": "geometric_knn_mutual_information", "clause": "purity"})
    # ---- MI / CMI as documented signed sums
    for it in range(90 if thorough else 30):
        dx, dy, dz = int(rng.integers(1, 3)), int(rng.integers(1, 3)), int(rng.integers(1, 3))
        k = int(rng.integers(1, 5)); N = int(rng.integers(k + 3, 36))
        metric = ["euclidean", "euclidean", "cityblock", "chebyshev"][it % 4]
        W = rng.standard_normal((N, dx + dy + dz)) @ (rng.standard_normal((dx + dy + dz, dx + dy + dz)) * 0.5 + np.eye(dx + dy + dz))
        if it % 3 == 2:      # samples far from the origin (exact power-of-two offsets, 1e6..1e7 spacings away): distances must come from differences
            W = W + 2.0 ** rng.integers(20, 25, size=W.shape[1]) * rng.choice([-1.0, 1.0], size=W.shape[1])
        elif it % 6 == 1:    # data in large units (spread 1e3 .. 1e6) ...
            W = W * float(10 ** rng.uniform(3, 6))
        elif it % 6 == 4:    # ... and in small ones (spread 1e-6 .. 1e-5): the estimate has no scale of its own
            W = W * float(10 ** rng.uniform(-6, -5))
        X, Y, Z = W[:, :dx], W[:, dx:dx + dy], W[:, dx + dy:]
        R = lambda A: ref_entropy(A, k, metric=metric, detail=True)
        parts_mi = [R(X), R(Y), R(np.hstack((X, Y)))]
        parts_cmi = [R(np.hstack((X, Z))), R(np.hstack((Y, Z))), R(np.hstack((X, Y, Z))), R(Z)]
        mi = float(M.geometric_knn_mutual_information(X, Y, metric=metric, k=k))
        cmi = float(C.geometric_knn_conditional_mutual_information(X, Y, Z, metric=metric, k=k))
        case = {"N": N, "dx": dx, "dy": dy, "dz": dz, "k": k, "metric": metric, "X": X, "Y": Y, "Z": Z}
        total += 1
        run.case("mi-cmi", [N, dx, dy, dz, k, metric, float(W[0, 0])], True, sample={"N": N, "dx": dx, "dy": dy, "dz": dz, "k": k, "metric": metric, "mi": mi, "cmi": cmi})
        if min(p[1] for p in parts_mi + parts_cmi) < 1e-6 or min(p[2] for p in parts_mi + parts_cmi) < 1e-9:
            run.skip("ellipsoid sum within 1e-6 of the threshold / neighbour near-tie"); continue
        want_mi = parts_mi[0][0] + parts_mi[1][0] - parts_mi[2][0]
        want_mi = max(0.0, want_mi) if math.isfinite(want_mi) else 0.0
        want_cmi = parts_cmi[0][0] + parts_cmi[1][0] - parts_cmi[2][0] - parts_cmi[3][0]
        if abs(mi - want_mi) > TOL:
            run.prop_fail("geometric MI is not the documented signed sum H(X)+H(Y)-H(X,Y) of geometric entropies (floored at 0)", case, {"function": "geometric_knn_mutual_information", "clause": "signed_sum"}, {"impl": mi, "reference": want_mi})
        if abs(cmi - want_cmi) > TOL:
            run.prop_fail("geometric CMI is not the documented signed sum H(X,Z)+H(Y,Z)-H(X,Y,Z)-H(Z)", case, {"function": "geometric_knn_conditional_mutual_information", "clause": "signed_sum"}, {"impl": cmi, "reference": want_cmi})
        run.traces += 1
    if sum(run.skipped.values()) > 0.05 * max(1, total):
        from common import Infra
        raise Infra("more than 5% of the cases were skipped by the margin filters")
    run.extra["explanation"] = (
        "Lean: the four laws are proved for the mathematical estimator (CEProofs/C12Svd.lean geom_laws_real: the local correction is defined with "
        "Mathlib's singular values and the basis-free quadratic form; no hypothesis about the correction), and the executable rational spectral "
        "invariants used by the spectral tie are proved to be those objects (CEProofs/C12Spectral.lean). The published formula is evaluated by an "
        "independent implementation and the four laws are checked directly on the real function with the deltas the theorems predict. LAPACK's "
        "floating-point SVD, log/sqrt rounding and the rank-deficient regime k < d are outside the theorems and decided by these ties."
    )
    run.assumptions += ["tie-free samples; margin filters counted in `skipped`", "the independent reference uses its own one-sided Jacobi SVD with a relative rank threshold 1e-9 on the singular values"]
