"""Shared machinery of the causationentropy verification harness.

Everything here runs under /venv/bin/python, imports the implementation from /repo's
working tree in-process, talks to the compiled Lean model driver over a JSON line
protocol, audits the Lean theorems, and writes evidence / replays.
"""
from __future__ import annotations

import contextlib
import fcntl
import hashlib
import io
import json
import math
import os
import re
import struct
import subprocess
import sys
import time
from fractions import Fraction
from pathlib import Path

VERIF = Path(__file__).resolve().parent.parent
LEAN = VERIF / "lean"
REPO = Path(os.environ.get("CE_REPO", "/repo"))
DRIVER = LEAN / ".lake" / "build" / "bin" / "cedriver"

os.environ.setdefault("OMP_NUM_THREADS", "1")
os.environ.setdefault("OPENBLAS_NUM_THREADS", "1")
os.environ.setdefault("MKL_NUM_THREADS", "1")
os.environ.setdefault("MPLBACKEND", "Agg")
# hooks guard (no hook is currently needed; kept so that the documented guard is always set)
os.environ.setdefault("CAUSATIONENTROPY_VERIF", "1")
if str(REPO) not in sys.path:
    sys.path.insert(0, str(REPO))

ALLOWED_AXIOMS = {"propext", "Classical.choice", "Quot.sound"}
BANNED = re.compile(
    r"\bsorry\b|\badmit\b|^\s*axiom\s|native_decide|bv_decide|implemented_by|\bunsafe\s|maxHeartbeats\s+0\b",
    re.M,
)


class Infra(Exception):
    """Infrastructure failure (exit 2) -- never a violation."""


# ----------------------------------------------------------------------------- numbers

def f2b(x: float) -> int:
    return struct.unpack("<Q", struct.pack("<d", float(x)))[0]


def b2f(b: int) -> float:
    return struct.unpack("<d", struct.pack("<Q", int(b)))[0]


def num(x):
    """Encode a Python / NumPy scalar for the driver (exact)."""
    import numpy as np

    if isinstance(x, Fraction):
        return {"q": [str(x.numerator), str(x.denominator)]}
    if isinstance(x, (bool, np.bool_)):
        return int(x)
    if isinstance(x, (int, np.integer)):
        return int(x)
    x = float(x)
    if math.isnan(x):
        return "nan"
    if math.isinf(x):
        return "inf" if x > 0 else "-inf"
    return {"b": f2b(x)}


def mat(a):
    return [[num(v) for v in row] for row in a]


def vec(a):
    return [num(v) for v in a]


def unval(j):
    """Decode a driver value: Fraction for finite, float nan/inf otherwise."""
    if isinstance(j, str):
        return {"nan": math.nan, "inf": math.inf, "-inf": -math.inf}[j]
    if isinstance(j, list) and len(j) == 2:
        return Fraction(int(j[0]), int(j[1]))
    if isinstance(j, int):
        return Fraction(j)
    raise ValueError(f"bad value from driver: {j!r}")


def frac_of_float(x: float) -> Fraction:
    return Fraction(float(x))


def close(a, b, atol=0.0, rtol=0.0) -> bool:
    """|a-b| <= atol + rtol*max(|a|,|b|); exact objects welcome."""
    if isinstance(a, float) and math.isnan(a):
        return isinstance(b, float) and math.isnan(b)
    if isinstance(b, float) and math.isnan(b):
        return False
    if isinstance(a, float) and math.isinf(a) or isinstance(b, float) and math.isinf(b):
        return a == b
    a = Fraction(a) if not isinstance(a, Fraction) else a
    b = Fraction(b) if not isinstance(b, Fraction) else b
    return abs(a - b) <= Fraction(atol) + Fraction(rtol) * max(abs(a), abs(b))


def logfrac(q: Fraction) -> float:
    """natural log of a positive Fraction without overflow."""
    return math.log(q.numerator) - math.log(q.denominator)


# ----------------------------------------------------------------------------- lean

def lake_build() -> None:
    """(Re)build model library, proofs and driver. No-op when up to date."""
    lock = LEAN / ".build.lock"
    with open(lock, "w") as lf:
        fcntl.flock(lf, fcntl.LOCK_EX)
        p = subprocess.run(["lake", "build"], cwd=LEAN, capture_output=True, text=True)
        if p.returncode != 0 or not DRIVER.exists():
            sys.stderr.write(p.stdout[-4000:] + p.stderr[-4000:])
            raise Infra("lake build failed")


def lean_file(path: Path, timeout=900):
    """Elaborate one Lean file against the built libraries; returns (rc, output)."""
    p = subprocess.run(
        ["lake", "env", "lean", str(path)], cwd=LEAN, capture_output=True, text=True, timeout=timeout
    )
    return p.returncode, p.stdout + p.stderr


def _strip_comments(src: str) -> str:
    src = re.sub(r"/-.*?-/", "", src, flags=re.S)
    src = re.sub(r"--.*", "", src)
    return src


EXTRA_AUDIT = {"C01": ["Master"], "C02": ["Master"], "C06": ["Master"]}


def audit(prop: str, tier: str):
    """Audit the property's theorems: `#print axioms` of every theorem named in
    lean/Audit/<prop>.lean, banned-token grep of the proof sources. Returns list of obligations."""
    obligations = []
    audit_file = LEAN / "Audit" / f"{prop}.lean"
    if not audit_file.exists():
        raise Infra(f"missing {audit_file}")
    text = audit_file.read_text()
    rc, out = lean_file(audit_file)
    # end-to-end composition theorems shared by several properties (lean/Audit/<extra>.lean)
    extra_files = [LEAN / "Audit" / f"{e}.lean" for e in EXTRA_AUDIT.get(prop, [])]
    for ef in extra_files:
        if not ef.exists():
            raise Infra(f"missing {ef}")
        text += "\n" + ef.read_text()
        out += "\n" + lean_file(ef)[1]
    names = re.findall(r"^#print axioms\s+(\S+)", text, flags=re.M)
    # parse
    found = {}
    for m in re.finditer(r"^'([^\n]+?)' depends on axioms: \[([^\]]*)\]", out, flags=re.S | re.M):
        found[m.group(1)] = {a.strip() for a in m.group(2).replace("\n", " ").split(",") if a.strip()}
    for m in re.finditer(r"^'([^\n]+?)' does not depend on any axioms", out, flags=re.M):
        found[m.group(1)] = set()
    for n in names:
        if n not in found:
            obligations.append({"name": f"theorem {n}", "ok": False, "detail": "not established: " + out[-300:]})
        else:
            extra = found[n] - ALLOWED_AXIOMS
            obligations.append(
                {"name": f"theorem {n}", "ok": not extra, "axioms": sorted(found[n]), "detail": f"extra axioms {sorted(extra)}" if extra else ""}
            )
    # banned tokens in the sources imported by the audit file (transitively inside our package)
    seen, todo = set(), [audit_file, *extra_files]
    while todo:
        f = todo.pop()
        if f in seen or not f.exists():
            continue
        seen.add(f)
        src = f.read_text()
        for m in re.finditer(r"^import\s+((?:CEModel|CEProofs)[\w.]*)", src, flags=re.M):
            todo.append(LEAN / (m.group(1).replace(".", "/") + ".lean"))
        hit = BANNED.search(_strip_comments(src))
        if hit:
            obligations.append({"name": f"source-clean {f.name}", "ok": False, "detail": f"banned token {hit.group(0)!r}"})
    obligations.append({"name": "source-clean (no sorry/admit/axiom/native_decide/bv_decide/unsafe)", "ok": all(o["ok"] for o in obligations if o["name"].startswith("source-clean")) , "detail": f"{len(seen)} files"})
    if tier == "thorough":
        mods = sorted({m for f in seen for m in [str(f.relative_to(LEAN))[:-5].replace("/", ".")] if m.startswith("CEProofs")})
        if mods:
            p = subprocess.run(["lake", "env", "leanchecker", *mods], cwd=LEAN, capture_output=True, text=True)
            obligations.append({"name": "leanchecker " + " ".join(mods), "ok": p.returncode == 0, "detail": (p.stdout + p.stderr)[-300:]})
    return obligations


class Driver:
    """Batch interface to the compiled Lean model driver."""

    def __init__(self):
        if not DRIVER.exists():
            raise Infra("driver not built")

    def run(self, requests: list[dict]) -> list[dict]:
        if not requests:
            return []
        for i, r in enumerate(requests):
            r["id"] = i
        payload = "\n".join(json.dumps(r, separators=(",", ":")) for r in requests) + "\n"
        p = subprocess.run([str(DRIVER)], input=payload, capture_output=True, text=True)
        if p.returncode != 0:
            raise Infra(f"driver crashed: {p.stderr[-500:]}")
        lines = [l for l in p.stdout.split("\n") if l.strip()]
        if len(lines) != len(requests):
            raise Infra(f"driver returned {len(lines)} lines for {len(requests)} requests: {p.stderr[-300:]}")
        out = [json.loads(l) for l in lines]
        for i, o in enumerate(out):
            if o.get("id") != i:
                raise Infra("driver response out of order")
        return out

    def run_sharded(self, requests: list[dict], shards: int = 8) -> list[dict]:
        if len(requests) < 64 or shards <= 1:
            return self.run(requests)
        from concurrent.futures import ThreadPoolExecutor

        chunks = [requests[i::shards] for i in range(shards)]
        with ThreadPoolExecutor(shards) as ex:
            res = list(ex.map(lambda c: Driver().run([dict(r) for r in c]), chunks))
        out = [None] * len(requests)
        for s, rs in enumerate(res):
            for k, r in enumerate(rs):
                out[s + k * shards] = r
        return out


# ----------------------------------------------------------------------------- run context

def canon(obj):
    """Canonical JSON-able form for hashing/sampling."""
    import numpy as np

    if isinstance(obj, dict):
        return {str(k): canon(v) for k, v in sorted(obj.items(), key=lambda kv: str(kv[0]))}
    if isinstance(obj, (list, tuple)):
        return [canon(v) for v in obj]
    if isinstance(obj, np.ndarray):
        return canon(obj.tolist())
    if isinstance(obj, (np.integer,)):
        return int(obj)
    if isinstance(obj, (np.floating, float)):
        x = float(obj)
        return x if math.isfinite(x) else repr(x)
    if isinstance(obj, (np.bool_, bool)):
        return bool(obj)
    if isinstance(obj, Fraction):
        return f"{obj.numerator}/{obj.denominator}"
    if obj is None or isinstance(obj, (int, str)):
        return obj
    return repr(obj)


def load_known():
    f = VERIF / "known_findings.json"
    if not f.exists():
        return []
    return json.loads(f.read_text())


class Run:
    def __init__(self, prop: str, tier: str, level: str):
        self.prop, self.tier, self.level = prop, tier, level
        self.seed = int(os.environ.get("VERIF_SEED", "0") or 0)
        self.t0 = time.time()
        self.obligations: list[dict] = []
        self.evaluations = 0
        self.distinct: set[str] = set()
        self.samples: list = []
        self.suites: dict[str, dict] = {}
        self.corr_failures: list[dict] = []
        self.prop_failures: list[dict] = []
        self.known_hits: dict[str, int] = {}
        self.skipped: dict[str, int] = {}
        self.traces = 0
        self.assumptions: list[str] = []
        self.trusted: list[str] = []
        self.extra: dict = {}
        self.rule = ""
        self.exhaustive = None
        self.known = [k for k in load_known() if k.get("property") == prop]
        import numpy as np

        self.rng = np.random.default_rng([self.seed, int(prop[1:])])

    # -- bookkeeping
    def case(self, suite: str, key, nontrivial: bool = True, sample=None):
        self.evaluations += 1
        s = self.suites.setdefault(suite, {"cases": 0, "nontrivial": 0})
        s["cases"] += 1
        if nontrivial:
            s["nontrivial"] += 1
            h = hashlib.sha1(json.dumps(canon([suite, key]), sort_keys=True).encode()).hexdigest()
            self.distinct.add(h)
        if sample is not None and sum(1 for x in self.samples if x.get("suite") == suite) < 2:
            self.samples.append({"suite": suite, "case": canon(sample)})

    def skip(self, why: str):
        self.skipped[why] = self.skipped.get(why, 0) + 1

    def branch(self, name: str):
        b = self.extra.setdefault("branches", {})
        b[name] = b.get(name, 0) + 1

    def corr_fail(self, suite: str, case, expected, actual, note=""):
        """Model and implementation disagree (the tie is broken) on `case`."""
        if len(self.corr_failures) < 50:
            self.corr_failures.append(
                {"suite": suite, "case": canon(case), "model": canon(expected), "impl": canon(actual), "note": note}
            )
        else:
            self.corr_failures.append(None)

    def prop_fail(self, what: str, case, sig: dict | None = None, detail=None):
        """The property itself fails on the implementation for concrete `case`."""
        sig = sig or {}
        for k in self.known:
            if k.get("status") == "open" and _match(k.get("match", {}), sig):
                self.known_hits[k["id"]] = self.known_hits.get(k["id"], 0) + 1
                return
        if len(self.prop_failures) < 50:
            self.prop_failures.append({"what": what, "case": canon(case), "sig": canon(sig), "detail": canon(detail)})
        else:
            self.prop_failures.append(None)

    def oblige(self, name: str, ok: bool, detail: str = ""):
        self.obligations.append({"name": name, "ok": bool(ok), "detail": detail})

    # -- finish
    def finish(self) -> int:
        wall = time.time() - self.t0
        # scratch runs (another tree via CE_REPO, or an explicit CE_EVIDENCE_DIR) never overwrite the committed evidence
        evdir = Path(os.environ["CE_EVIDENCE_DIR"]) if os.environ.get("CE_EVIDENCE_DIR") else (
            VERIF / "evidence" if str(REPO) == "/repo" else VERIF / "replays" / "scratch-evidence")
        evdir.mkdir(parents=True, exist_ok=True)
        (VERIF / "replays").mkdir(exist_ok=True)
        failed_obl = [o for o in self.obligations if not o["ok"]]
        lines = []
        for kid, cnt in self.known_hits.items():
            k = next(k for k in self.known if k["id"] == kid)
            lines.append(f"KNOWN-FINDING: property={self.prop} {k['what']} [{kid}; {cnt} case(s) this run]")
        violation = None
        if self.prop_failures:
            first = next(p for p in self.prop_failures if p)
            violation = {"kind": "failing-input", **first}
        elif self.corr_failures or failed_obl:
            violation = {
                "kind": "no-failing-input-found",
                "broken_obligations": failed_obl[:10],
                "broken_correspondence": [c for c in self.corr_failures if c][:5],
                "explanation": "a proof obligation or the model/implementation correspondence no longer checks; "
                "the search for a concrete input violating the property itself found none",
            }
        nviol = len(self.prop_failures) + (1 if violation and violation["kind"] != "failing-input" else 0)
        cov = {
            "obligations": len(self.obligations),
            "discharged": len(self.obligations) - len(failed_obl),
            "checker_cmd": f"cd /verif/lean && lake build && lake env lean Audit/{self.prop}.lean",
            "trusted_base": self.trusted
            or [
                "Lean 4.33 kernel; axioms limited to propext, Classical.choice, Quot.sound (audited this run)",
                "Mathlib v4.33 (kernel-checked library)",
                "Lean compiler/runtime executing the model driver",
                "harness/*.py correspondence check and instrumentation shims",
            ],
            "evaluations": self.evaluations,
            "distinct_nontrivial": len(self.distinct),
            "rule": self.rule,
            "samples": self.samples[:12] or [{"note": "no cases"}],
            "traces_validated_against_impl": self.traces,
            "suites": self.suites,
            "skipped": self.skipped,
            "obligation_list": [{"name": o["name"], "ok": o["ok"], **({"axioms": o["axioms"]} if "axioms" in o else {})} for o in self.obligations],
            "correspondence_failures": len(self.corr_failures),
            "property_failures": len(self.prop_failures),
            "known_findings_hit": self.known_hits,
            "explanation": self.extra.get("explanation", ""),
        }
        if self.exhaustive is not None:
            cov["exhaustive"] = bool(self.exhaustive)
        for k, v in self.extra.items():
            if k not in cov:
                cov[k] = canon(v)
        ev = {
            "property_id": self.prop,
            "tier": self.tier,
            "seed": self.seed,
            "level": self.level,
            "coverage": cov,
            "assumptions": self.assumptions,
            "wall_s": round(wall, 2),
            "violations": nviol,
        }
        (evdir / f"{self.prop}.json").write_text(json.dumps(ev, indent=1, sort_keys=True) + "\n")
        for l in lines:
            print(l)
        print(
            f"[{self.prop} {self.tier} seed={self.seed}] obligations {cov['discharged']}/{cov['obligations']}, "
            f"cases {self.evaluations} (distinct non-trivial {len(self.distinct)}), corr-fail {len(self.corr_failures)}, "
            f"prop-fail {len(self.prop_failures)}, skipped {sum(self.skipped.values())}, {wall:.1f}s"
        )
        if violation:
            blob = json.dumps(canon(violation), sort_keys=True)
            h = hashlib.sha1(blob.encode()).hexdigest()[:12]
            path = VERIF / "replays" / f"{self.prop}-{h}.json"
            violation.update(
                {"property": self.prop, "seed": self.seed, "tier": self.tier,
                 "replay_cmd": f"cd /verif && VERIF_SEED={self.seed} ./check {self.prop} {self.tier}"}
            )
            path.write_text(json.dumps(canon(violation), indent=1, sort_keys=True) + "\n")
            rel = os.path.relpath(path, VERIF)
            if violation["kind"] == "failing-input":
                print(f"VIOLATION property={self.prop} replay={rel}")
            else:
                print(f"VIOLATION property={self.prop} replay={rel} no-failing-input-found")
            return 1
        return 0


def _match(pattern: dict, sig: dict) -> bool:
    if not pattern:
        return False
    for k, v in pattern.items():
        if k not in sig:
            return False
        sv = sig[k]
        if isinstance(v, list):
            if isinstance(sv, list):
                if not set(map(str, sv)) <= set(map(str, v)):
                    return False
            elif sv not in v:
                return False
        elif sv != v:
            return False
    return True


# the documented positional order of the public functions (pinned at the baseline commit): a caller may pass any leading part of it
# positionally, so every such call form is a way of making the same request
PINNED_ORDER = {
    "discover_network": ["data", "method", "information", "max_lag", "alpha_forward", "alpha_backward", "metric", "bandwidth", "k_means", "n_shuffles", "n_jobs"],
    "shuffle_test": ["X", "Y", "Z", "observed_cmi", "alpha", "n_shuffles", "rng", "information", "metric", "k_means", "bandwidth"],
    "conditional_mutual_information": ["X", "Y", "Z", "method", "metric", "k", "bandwidth", "kernel"],
    "kde_conditional_mutual_information": ["X", "Y", "Z", "bandwidth", "kernel"],
    "knn_conditional_mutual_information": ["X", "Y", "Z", "metric", "k"],
    "geometric_knn_conditional_mutual_information": ["X", "Y", "Z", "metric", "k"],
    "kde_mutual_information": ["X", "Y", "bandwidth", "kernel"],
    "knn_mutual_information": ["X", "Y", "metric", "k"],
    "geometric_knn_mutual_information": ["X", "Y", "metric", "k"],
    "kde_entropy": ["X", "bandwidth", "kernel"],
    "geometric_knn_entropy": ["X", "Xdist", "k"],
    "logisic_dynamics": ["n", "p", "t", "r", "sigma", "seed"],
    "linear_stochastic_gaussian_process": ["rho", "n", "T", "p", "epsilon", "seed", "G"],
    "poisson_coupled_oscillators": ["n", "T", "p", "lambda_base", "coupling_strength", "seed", "G"],
    "pcmci_to_networkx": ["results", "binarize", "p_value"],
    "network_to_dataframe": ["G", "method", "information", "alpha_forward", "alpha_backward", "metric", "bandwidth", "k_means", "n_shuffles", "max_lag"],
    "subnetwork": ["G", "lag"],
}


def call_form(fn, name, form, **kw):
    """Call `fn` with the request `kw` in one of its documented call forms: 0 all keywords, 1 the longest possible leading part
    positional, 2 about half of that leading part positional (the rest by keyword)."""
    order = PINNED_ORDER[name]
    lead = 0
    while lead < len(order) and order[lead] in kw:
        lead += 1
    cut = [0, lead, (lead + 1) // 2][form % 3]
    return fn(*[kw[k] for k in order[:cut]], **{k: v for k, v in kw.items() if k not in order[:cut]})


class SeamBypassed(Exception):
    """The implementation reached something the harness observes (a random generator, an estimator, a test) by a route the
    instrumentation does not see. Nothing can be concluded about the property from such a run: it is a broken tie, never a failing input."""


def alias_patches(module, replacements):
    """Other names under which `module` holds the observed objects (`from numpy.random import default_rng`, `import numpy.random as npr`,
    ...): returns {attribute name: replacement} for every module attribute that IS one of the originals (identity)."""
    out = {}
    for name, val in list(vars(module).items()):
        for orig, repl in replacements:
            if val is orig:
                out[name] = repl
    return out


@contextlib.contextmanager
def patched_everywhere(pairs, prefix="causationentropy"):
    """Replace every attribute of every loaded module of the package that IS one of the original objects (identity), whatever name it is
    bound to and whichever module it was imported into (`from m import f`, `import m as alias; alias.f`). Restores on exit."""
    import sys
    done = []
    for mname, mod in list(sys.modules.items()):
        if mod is None or not (mname == prefix or mname.startswith(prefix + ".")) or ".tests" in mname:
            continue
        for name, val in list(vars(mod).items()):
            for orig, repl in pairs:
                if val is orig and repl is not None:
                    done.append((mod, name, val))
                    setattr(mod, name, repl)
    try:
        yield
    finally:
        for mod, name, val in done:
            setattr(mod, name, val)


class EntryPoints:
    """The public ways of reaching one function (defining module and every package-level re-export), used in turn:
    a wrapper put around a re-export must behave like the function it re-exports."""

    def __init__(self, name, *modules):
        import importlib
        self.name = name
        self.fns = []
        for m in modules:
            mod = importlib.import_module(m) if isinstance(m, str) else m
            if hasattr(mod, name):
                self.fns.append((getattr(mod, "__name__", str(m)), getattr(mod, name)))
        if not self.fns:
            raise Infra(f"{name}: no entry point found in {modules}")
        self.i = 0
        self.last = self.fns[0][0]

    def __call__(self, *a, **k):
        self.last, fn = self.fns[self.i % len(self.fns)]
        self.i += 1
        return fn(*a, **k)


class ModuleEntryPoints:
    """Stand-in for `import module as U`: attribute access returns EntryPoints cycling over the defining module and the
    given re-exporting packages (names not re-exported fall through to the defining module)."""

    def __init__(self, module, *packages):
        import importlib
        self._mods = [importlib.import_module(m) if isinstance(m, str) else m for m in (module, *packages)]
        self._cache = {}

    def __getattr__(self, name):
        if name.startswith("_"):
            raise AttributeError(name)
        v = getattr(self._mods[0], name)
        import types
        if not isinstance(v, types.FunctionType):
            return v                      # modules, constants, classes: the defining module's (instrumentation replaces them there)
        if name not in self._cache:
            self._cache[name] = EntryPoints(name, *self._mods)
        return self._cache[name]

    def __setattr__(self, name, value):
        if name.startswith("_"):
            object.__setattr__(self, name, value)
        else:                             # instrumentation (`patched(S, "np", shim)`) goes to the defining module
            self._cache.pop(name, None)
            setattr(self._mods[0], name, value)


@contextlib.contextmanager
def quiet():
    """Swallow stdout of the implementation (discover_network prints progress)."""
    buf = io.StringIO()
    with contextlib.redirect_stdout(buf):
        yield buf


@contextlib.contextmanager
def patched(obj, name, value):
    old = getattr(obj, name)
    setattr(obj, name, value)
    try:
        yield
    finally:
        setattr(obj, name, old)


def reuse_check(run, what, f, first, second, sig, case=None):
    """Stateful-implementation probe for a function that should be pure: call `f` on buffers holding `first`, refill the SAME
    array objects in place with `second`, call again; the result must equal `f` on fresh copies of `second` (and a repeated call).
    `first` / `second`: tuples of equally shaped ndarrays (or None). Results are compared with ==/NaN-aware equality via repr."""
    import numpy as np

    bufs = tuple(None if a is None else np.array(a, copy=True) for a in first)
    r1 = f(*bufs)
    for b, s_ in zip(bufs, second):
        if b is not None:
            b[...] = s_
    r_reused = f(*bufs)
    r_fresh = f(*(None if a is None else np.array(a, copy=True) for a in second))
    same = repr(np.asarray(r_reused).tolist()) == repr(np.asarray(r_fresh).tolist())
    if not same:
        run.prop_fail(f"{what}: the same array objects refilled in place give a different result than fresh arrays holding the same numbers "
                      "(state kept between calls, e.g. a cache keyed on object identity)",
                      case if case is not None else {"first": first, "second": second}, {**sig, "history": "buffer_reuse"},
                      {"reused_buffers": r_reused, "fresh_arrays": r_fresh, "first_call": r1})
    return same
