"""Rewrite the theorem index of DESIGN.md (between the theorem-index markers) from lean/Audit/*.lean."""
import re
from pathlib import Path

VERIF = Path(__file__).resolve().parent.parent
out = []
total = 0
for f in sorted((VERIF / "lean" / "Audit").glob("*.lean")):
    names = re.findall(r"^#print axioms\s+(\S+)", f.read_text(), flags=re.M)
    if not names or not (re.fullmatch(r"C\d\d", f.stem) or f.stem == "Master"):
        continue   # C10<Part>.lean are aggregated by C10.lean
    total += len(names)
    ns = sorted({n.rsplit(".", 1)[0] for n in names if "." in n})
    out.append(f"* **{f.stem}** ({len(names)} theorems; namespaces {', '.join('`' + n + '`' for n in ns)}): " + ", ".join("`" + n.rsplit(".", 1)[-1] + "`" for n in names))
    out.append("")
doc = (VERIF / "DESIGN.md").read_text()
new = "<!-- theorem-index:begin -->\n" + "\n".join(out) + f"\nTotal: {total} audited theorems.\n<!-- theorem-index:end -->"
doc2, n = re.subn(r"<!-- theorem-index:begin -->.*?<!-- theorem-index:end -->", lambda _: new, doc, flags=re.S)
assert n == 1, "markers not found"
(VERIF / "DESIGN.md").write_text(doc2)
print(total, "theorems")
