"""Rewrite the seeded-change table of DESIGN.md (between the seeded-table markers) from seeded/*/meta.json and seeded/results.json."""
import json
import re
from pathlib import Path

VERIF = Path(__file__).resolve().parent.parent
res = json.loads((VERIF / "seeded" / "results.json").read_text())
rows = ["| id | change | needs in order to manifest | quick check(s) |", "|---|---|---|---|"]
for d in sorted(p for p in (VERIF / "seeded").iterdir() if p.is_dir()):
    m = json.loads((d / "meta.json").read_text())
    out = []
    for p, r in sorted(res.get(d.name, {}).items()):
        if r.startswith("caught"):
            r = "caught (no-failing-input-found)" if "no-failing-input" in r else "caught (failing input)"
        out.append(f"{p}: {r}")
    esc = lambda s: str(s).replace("|", "\\|").replace("\n", " ")
    rows.append(f"| {d.name} | {esc(m.get('what', ''))} | {esc(m.get('needs_to_manifest', ''))} | {'; '.join(out) or 'not run'} |")
doc = (VERIF / "DESIGN.md").read_text()
new = "<!-- seeded-table:begin -->\n" + "\n".join(rows) + "\n<!-- seeded-table:end -->"
doc2, n = re.subn(r"<!-- seeded-table:begin -->.*?<!-- seeded-table:end -->", lambda _: new, doc, flags=re.S)
assert n == 1, "markers not found"
(VERIF / "DESIGN.md").write_text(doc2)
print(len(rows) - 2, "rows")
