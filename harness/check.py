"""Entry point: check.py <Cxx> quick|thorough"""
import importlib
import sys
import traceback

from common import Driver, Infra, Run, audit, lake_build

LEVELS = {"C05": "other", "C12": "other", "C20": "other"}


def main(argv):
    if len(argv) < 3:
        print("usage: check.py <Cxx> quick|thorough")
        return 2
    prop, tier = argv[1], argv[2]
    try:
        mod = importlib.import_module(f"props.{prop.lower()}")
    except ModuleNotFoundError as e:
        print(f"no check for {prop}: {e}")
        return 2
    try:
        lake_build()
        run = Run(prop, tier, LEVELS.get(prop, "proof"))
        run.obligations.extend(audit(prop, tier))
        mod.check(run, Driver())
        return run.finish()
    except Infra as e:
        print(f"INFRASTRUCTURE FAILURE ({prop}): {e}")
        return 2
    except Exception:
        traceback.print_exc()
        print(f"INFRASTRUCTURE FAILURE ({prop}): harness exception")
        return 2


if __name__ == "__main__":
    sys.exit(main(sys.argv))
