"""Entry point: check.py <Cxx> quick|thorough"""
import importlib
import sys
import traceback

from common import Driver, Infra, Run, SeamBypassed, audit, lake_build

LEVELS = {"C05": "other", "C20": "other"}


def main(argv):
    if len(argv) < 3:
        print("usage: check.py <Cxx> quick|thorough")
        return 2
    prop, tier = argv[1], argv[2]
    try:
        mod = importlib.import_module(f"props.{prop.lower()}")
    except ModuleNotFoundError as e:
        print(f"no check for {prop}: {e}")
        return 2
    run = None
    try:
        lake_build()
        run = Run(prop, tier, LEVELS.get(prop, "proof"))
        run.obligations.extend(audit(prop, tier))
        try:
            mod.check(run, Driver())
        except Infra:
            raise
        except SeamBypassed as e:
            run.corr_fail("instrumentation", {"seam": str(e)}, "the observed objects are reached through the module attributes the harness replaces", "bypassed",
                          "the correspondence cannot be established on this tree (no conclusion about the property)")
            return run.finish()
        except Exception as e:  # noqa
            # an exception escaping from the IMPLEMENTATION (innermost frames under the repository) on an input the generators
            # consider valid is a failure of the property on that input, not a tool failure
            import os
            from common import REPO
            tb = traceback.extract_tb(e.__traceback__)
            impl_frames = [f for f in tb if os.path.abspath(f.filename).startswith(str(REPO) + os.sep)]
            if not impl_frames and isinstance(e, AttributeError) and "causationentropy" in str(e) and "has no attribute" in str(e):
                # a name inside the implementation that the tie observes (an instrumentation seam, a private helper) no longer exists:
                # the correspondence cannot be established on this tree -- a broken tie, not a tool failure and not a failing input
                run.corr_fail("seam", {"missing": str(e)}, "the module attribute the harness observes", "absent",
                              "the correspondence cannot be established on this tree (no conclusion about the property)")
                return run.finish()
            remote_tb = getattr(getattr(e, "__cause__", None), "tb", "") or ""
            if not impl_frames and (str(REPO) + os.sep) in remote_tb:
                # the exception was raised by the implementation inside a worker process (concurrent.futures keeps its traceback as text)
                run.prop_fail("the implementation raised an exception on an input the property quantifies over",
                              {"exception": repr(e), "where": [l.strip() for l in remote_tb.splitlines() if str(REPO) in l][-3:]},
                              {"clause": "total"}, remote_tb[-1500:])
                return run.finish()
            if not impl_frames:
                # a call in a documented form (positional order / keyword names of the pinned public signature) that the CURRENT
                # signature of an implementation function rejects is raised by the interpreter before any implementation frame exists
                import re, subprocess
                m = re.match(r"^(?:\w+\.)*(\w+)\(\) (got multiple values|got an unexpected keyword|missing \d+ required|takes (?:from )?\d+)", str(e)) if isinstance(e, TypeError) else None
                if m and subprocess.run(["grep", "-rqE", rf"def {m.group(1)}\(", str(REPO / "causationentropy"), "--include=*.py"]).returncode == 0:
                    run.prop_fail("a call in a documented form is rejected by the implementation's current signature",
                                  {"exception": repr(e), "function": m.group(1),
                                   "harness_frame": next((f"{f.filename}:{f.lineno}" for f in reversed(tb) if "/verif/harness/props/" in f.filename), "")},
                                  {"clause": "total"}, traceback.format_exc()[-1500:])
                    return run.finish()
                raise          # nothing of the implementation on the stack: a harness/tool failure (exit 2)
            run.prop_fail("the implementation raised an exception on an input the property quantifies over",
                          {"exception": repr(e), "where": [f"{f.filename}:{f.lineno} {f.name}" for f in impl_frames[-3:]],
                           "harness_frame": next((f"{f.filename}:{f.lineno}" for f in reversed(tb) if "/verif/harness/" in f.filename), "")},
                          {"clause": "total"}, traceback.format_exc()[-1500:])
        return run.finish()
    except Infra as e:
        print(f"INFRASTRUCTURE FAILURE ({prop}): {e}")
        return 2
    except Exception:
        traceback.print_exc()
        print(f"INFRASTRUCTURE FAILURE ({prop}): harness exception")
        return 2


if __name__ == "__main__":
    sys.exit(main(sys.argv))
