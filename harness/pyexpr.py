"""Translator for straight-line numeric Python/NumPy code -> Lean terms over `Rat` (regenerated on every run).

A tiny symbolic evaluator over the `ast` of the CURRENT source.  Values are typed Lean terms:

  ("scal", term)          a rational number
  ("bool", term)          a Prop (decidable) built from comparisons of rationals
  ("elem", term)          an array expression, given by its entry as a Lean term in the bound variable `p`
                          (all arrays of one expression are aligned entry by entry: `p.1` = entry of the first array
                          parameter, `p.2` = entry of the second)
  ("belem", term)         an elementwise comparison (Prop in `p`)

Anything outside the recognised subset raises `Untranslatable` -- which is *not* an alarm: the obligation is then
"not established on this run" and the property is decided by the correspondence alone (DESIGN §2.4).
"""
from __future__ import annotations

import ast
from fractions import Fraction


class Untranslatable(Exception):
    pass


_BIN = {ast.Add: "+", ast.Sub: "-", ast.Mult: "*", ast.Div: "/"}
_CMP = {ast.Gt: ">", ast.GtE: "≥", ast.Lt: "<", ast.LtE: "≤", ast.Eq: "=", ast.NotEq: "≠"}


def lit(v) -> str:
    q = Fraction(v)
    if q.denominator == 1:
        return f"({q.numerator} : Rat)"
    return f"(({q.numerator} : Rat) / {q.denominator})"


def _is_np(node, name):
    return (isinstance(node, ast.Attribute) and node.attr == name and isinstance(node.value, ast.Name)
            and node.value.id in ("np", "numpy"))


class Sym:
    """symbolic evaluator; `env` maps Python names to typed terms; `atoms(node)` may recognise a sub-expression
    (e.g. an aggregate over arrays that the model takes as an input) and return a typed term for it"""

    def __init__(self, env, atoms=None, size_names=()):
        self.env = dict(env)
        self.atoms = atoms
        self.size_names = set(size_names)      # array parameter names whose .shape[k] / len() is the side length `n`

    # ---- expressions
    def ev(self, node):
        if self.atoms is not None:
            r = self.atoms(node, self)
            if r is not None:
                return r
        if isinstance(node, ast.Name):
            if node.id in self.env:
                return self.env[node.id]
            raise Untranslatable(f"unknown name {node.id}")
        if isinstance(node, ast.Constant) and isinstance(node.value, (int, float)) and not isinstance(node.value, bool):
            if node.value != node.value or node.value in (float("inf"), float("-inf")):
                raise Untranslatable("non-finite literal")
            return ("scal", lit(node.value))
        if isinstance(node, ast.UnaryOp) and isinstance(node.op, ast.USub):
            k, t = self.ev(node.operand)
            if k not in ("scal", "elem"):
                raise Untranslatable("negation of a non-number")
            return (k, f"(-{t})")
        if isinstance(node, ast.BinOp) and type(node.op) in _BIN:
            (ka, a), (kb, b) = self.ev(node.left), self.ev(node.right)
            if ka not in ("scal", "elem") or kb not in ("scal", "elem"):
                raise Untranslatable("arithmetic on a non-number")
            k = "elem" if "elem" in (ka, kb) else "scal"
            return (k, f"({a} {_BIN[type(node.op)]} {b})")
        if isinstance(node, ast.Compare) and len(node.ops) == 1 and type(node.ops[0]) in _CMP:
            (ka, a), (kb, b) = self.ev(node.left), self.ev(node.comparators[0])
            if ka not in ("scal", "elem") or kb not in ("scal", "elem"):
                raise Untranslatable("comparison of non-numbers")
            k = "belem" if "elem" in (ka, kb) else "bool"
            return (k, f"({a} {_CMP[type(node.ops[0])]} {b})")
        if isinstance(node, ast.IfExp):
            kt, t = self.ev(node.test)
            (ka, a), (kb, b) = self.ev(node.body), self.ev(node.orelse)
            if kt != "bool" or ka != "scal" or kb != "scal":
                raise Untranslatable("conditional expression outside scalars")
            return ("scal", f"(if {t} then {a} else {b})")
        if isinstance(node, ast.Call) and not node.keywords:
            f = node.func
            if isinstance(f, ast.Name) and f.id in ("max", "min") and len(node.args) == 2:
                (ka, a), (kb, b) = self.ev(node.args[0]), self.ev(node.args[1])
                if ka != "scal" or kb != "scal":
                    raise Untranslatable("max/min of non-scalars")
                return ("scal", f"({f.id} {a} {b})")
            if isinstance(f, ast.Name) and f.id == "float" and len(node.args) == 1:
                k, t = self.ev(node.args[0])
                if k != "scal":
                    raise Untranslatable("float() of a non-scalar")
                return (k, t)
            if (_is_np(f, "maximum") or _is_np(f, "minimum")) and len(node.args) == 2:
                (ka, a), (kb, b) = self.ev(node.args[0]), self.ev(node.args[1])
                if ka != "scal" or kb != "scal":
                    raise Untranslatable("np.maximum of non-scalars")
                return ("scal", f"({'max' if f.attr == 'maximum' else 'min'} {a} {b})")
            if _is_np(f, "clip") and len(node.args) == 3:
                (ka, a), (kl, lo), (kh, hi) = (self.ev(x) for x in node.args)
                if (ka, kl, kh) != ("scal", "scal", "scal"):
                    raise Untranslatable("np.clip of non-scalars")
                return ("scal", f"(min (max {a} {lo}) {hi})")
            if (_is_np(f, "sum") or _is_np(f, "count_nonzero")) and len(node.args) == 1:
                k, t = self.ev(node.args[0])
                if k == "belem":
                    return ("scal", f"((ps.countP (fun p => decide {t}) : Nat) : Rat)")
                if k == "elem" and f.attr == "sum":
                    return ("scal", f"((ps.map (fun p => {t})).sum)")
                raise Untranslatable("np.sum of a scalar")
            if isinstance(f, ast.Name) and f.id == "len" and len(node.args) == 1 and isinstance(node.args[0], ast.Name) and node.args[0].id in self.size_names:
                return ("scal", "(n : Rat)")
        if (isinstance(node, ast.Subscript) and isinstance(node.value, ast.Attribute) and node.value.attr == "shape"
                and isinstance(node.value.value, ast.Name) and node.value.value.id in self.size_names
                and isinstance(node.slice, ast.Constant) and node.slice.value in (0, 1)):
            return ("scal", "(n : Rat)")
        raise Untranslatable(f"expression outside the subset: {ast.unparse(node)[:70]}")

    # ---- statements (straight line)
    def run(self, stmts):
        """executes assignments; returns the typed value of the `return`, or None when there is none"""
        for st in stmts:
            if isinstance(st, ast.Expr) and isinstance(st.value, ast.Constant) and isinstance(st.value.value, str):
                continue
            if isinstance(st, ast.Assert):
                continue        # shape assertions do not change the value computed on admissible inputs
            if isinstance(st, ast.Assign) and len(st.targets) == 1 and isinstance(st.targets[0], ast.Name):
                self.env[st.targets[0].id] = self.ev(st.value)
                continue
            if isinstance(st, ast.AnnAssign) and isinstance(st.target, ast.Name) and st.value is not None:
                self.env[st.target.id] = self.ev(st.value)
                continue
            if isinstance(st, ast.Return) and st.value is not None:
                if isinstance(st.value, ast.Tuple):
                    return [self.ev(e) for e in st.value.elts]
                return [self.ev(st.value)]
            raise Untranslatable(f"statement outside the subset: {ast.unparse(st)[:70]}")
        return None
