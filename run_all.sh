#!/bin/bash
# run every claimed check (tier $1, default quick) sequentially; prints one line per check
cd "$(dirname "$0")"
tier="${1:-quick}"
for p in $(python3 -c "import json;print(' '.join(c['property_id'] for c in json.load(open('MANIFEST.json'))['checks']))"); do
  s=$(date +%s)
  out=$(./check $p $tier 2>&1); rc=$?
  e=$(date +%s)
  echo "$p rc=$rc $((e-s))s $(echo "$out" | grep -E 'VIOLATION|INFRA' | head -2 | tr '\n' ' ')"
done
