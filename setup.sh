#!/bin/bash
# Build the Lean model library, the proofs and the driver from files on disk only (offline).
set -e
cd "$(dirname "$0")/lean"
lake build 2>&1 | tail -3
test -x .lake/build/bin/cedriver
echo '{"op":"auc","id":0,"y":[0,1],"x":[0,1]}' | .lake/build/bin/cedriver | grep -q '"ok":\["1","2"\]'
echo "setup ok"
